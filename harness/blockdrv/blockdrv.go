// Package blockdrv drives the real ChainService.GetBlock (query.go) with a
// scripted query.WorkManager that feeds arbitrary response streams (honest
// blocks, mutated blocks, other blocks, non-block messages, duplicates; from
// several peers in any order) to the real handler closure.  Around it: a real
// block-header store holding the requested headers, the real LRU block cache
// and the real banman store on a temp bbolt.  Output: line protocol (tr).
//
//	case <n> blk cap <cache bytes>
//	getblock <target> <known> <enc> <cont> <verdict> [ peer:kind:rid:hdr:smw:size:sib ... ]
//	   (sib: id of the stored header that has the same PrevBlock and MerkleRoot as the response's header, 0 if none;
//	    cache entries carry a 4th field: 1 iff the cached block's header hash is the hash it is cached under)
//	   => <ret:rid:hmw | err:kind> q<n> prog [n|f ...] ban [peers] cache [key:rid:size ...]
//
// target/hdr: id of a header hash (chain height for stored headers), rid: id of
// the exact serialized block, smw / hmw: predicates computed by this driver with
// btcd on a private copy (sanity, merkle root reproduced, witness commitment /
// header hash = requested).  key = 2*hdr + enc.
package blockdrv

import (
	"bytes"
	"crypto/sha256"
	"errors"
	"fmt"
	"math/rand"
	"net"
	"os"
	"path/filepath"
	"strconv"
	"strings"
	"sync"
	"time"

	"github.com/btcsuite/btcd/blockchain"
	"github.com/btcsuite/btcd/btcutil/v2"
	"github.com/btcsuite/btcd/chaincfg/v2"
	"github.com/btcsuite/btcd/chainhash/v2"
	"github.com/btcsuite/btcd/wire/v2"
	"github.com/btcsuite/btcwallet/walletdb"
	_ "github.com/btcsuite/btcwallet/walletdb/bdb"
	"github.com/lightninglabs/neutrino"
	"github.com/lightninglabs/neutrino/banman"
	"github.com/lightninglabs/neutrino/cache/lru"
	"github.com/lightninglabs/neutrino/headerfs"
	"github.com/lightninglabs/neutrino/query"
	"verifharness/tr"
)

var params = chaincfg.RegressionNetParams

var errScript = errors.New("scripted dispatcher gave up")

// ---------------------------------------------------------------------------
// block construction

var txCounter uint32

func p2wpkh(seed byte) []byte {
	s := make([]byte, 22)
	s[0], s[1] = 0x00, 0x14
	for i := 2; i < 22; i++ {
		s[i] = seed + byte(i)
	}
	return s
}

func newTx(r *rand.Rand, witness bool) *wire.MsgTx {
	txCounter++
	tx := wire.NewMsgTx(2)
	nin := 1 + r.Intn(2)
	for i := 0; i < nin; i++ {
		var h chainhash.Hash
		r.Read(h[:])
		in := wire.NewTxIn(wire.NewOutPoint(&h, uint32(r.Intn(3))), nil, nil)
		if witness {
			sig := make([]byte, 71)
			r.Read(sig)
			pk := make([]byte, 33)
			r.Read(pk)
			in.Witness = wire.TxWitness{sig, pk}
		} else {
			in.SignatureScript = []byte{0x51, byte(txCounter), byte(txCounter >> 8)}
		}
		tx.AddTxIn(in)
	}
	for i := 1 + r.Intn(2); i > 0; i-- {
		tx.AddTxOut(wire.NewTxOut(int64(1000+r.Intn(100000)), p2wpkh(byte(r.Intn(200)))))
	}
	return tx
}

func coinbase(height int32, r *rand.Rand, noCoinbase bool) *wire.MsgTx {
	tx := wire.NewMsgTx(2)
	if noCoinbase {
		return newTx(r, false)
	}
	script := []byte{0x03, byte(height), byte(height >> 8), byte(r.Intn(256)), 0x00}
	tx.AddTxIn(wire.NewTxIn(wire.NewOutPoint(&chainhash.Hash{}, wire.MaxPrevOutIndex), script, nil))
	tx.AddTxOut(wire.NewTxOut(50_0000_0000, p2wpkh(byte(height))))
	return tx
}

func utxs(txs []*wire.MsgTx) []*btcutil.Tx {
	out := make([]*btcutil.Tx, len(txs))
	for i, t := range txs {
		out[i] = btcutil.NewTx(t)
	}
	return out
}

// addCommitment gives the coinbase (txs[0]) a witness nonce and a commitment
// output over the current transaction list.
func addCommitment(txs []*wire.MsgTx, nonceByte byte) {
	var nonce [32]byte
	for i := range nonce {
		nonce[i] = nonceByte
	}
	txs[0].TxIn[0].Witness = wire.TxWitness{nonce[:]}
	root := blockchain.CalcMerkleRoot(utxs(txs), true)
	var pre [64]byte
	copy(pre[:], root[:])
	copy(pre[32:], nonce[:])
	c := chainhash.DoubleHashB(pre[:])
	script := append(append([]byte{}, blockchain.WitnessMagicBytes...), c...)
	txs[0].AddTxOut(wire.NewTxOut(0, script))
}

func solve(h *wire.BlockHeader) {
	target := blockchain.CompactToBig(h.Bits)
	for {
		hash := h.BlockHash()
		if blockchain.HashToBig(&hash).Cmp(target) <= 0 {
			return
		}
		h.Nonce++
	}
}

// kinds of true block a header may commit to
const (
	kSegwit = iota // coinbase with witness commitment, some witness txs
	kLegacy        // no witness data anywhere, no commitment
	kFuture        // header timestamp far in the future: no body is sane
	kNoCoinbase    // first transaction is not a coinbase: no body is sane
	kOdd           // segwit, even number of non-coinbase txs (odd total): duplicating the last keeps the root
)

func buildChain(r *rand.Rand, n int) (hdrs []wire.BlockHeader, blocks []*wire.MsgBlock, kinds []int) {
	prev := *params.GenesisHash
	ts := params.GenesisBlock.Header.Timestamp
	for i := 1; i <= n; i++ {
		kind := kSegwit
		switch x := r.Intn(12); {
		case x < 2:
			kind = kLegacy
		case x == 2:
			kind = kFuture
		case x == 3:
			kind = kNoCoinbase
		case x < 7:
			kind = kOdd
		}
		var txs []*wire.MsgTx
		txs = append(txs, coinbase(int32(i), r, kind == kNoCoinbase))
		ntx := r.Intn(4)
		if kind == kOdd {
			ntx = 2
		}
		for j := 0; j < ntx; j++ {
			txs = append(txs, newTx(r, kind != kLegacy && r.Intn(3) > 0))
		}
		if kind != kLegacy && kind != kNoCoinbase {
			addCommitment(txs, byte(i))
		}
		ts = ts.Add(10 * time.Minute)
		h := wire.BlockHeader{Version: 4, PrevBlock: prev, Timestamp: ts, Bits: params.PowLimitBits}
		if kind == kFuture {
			h.Timestamp = time.Unix(time.Now().Add(5*time.Hour).Unix(), 0)
		}
		h.MerkleRoot = blockchain.CalcMerkleRoot(utxs(txs), false)
		solve(&h)
		b := wire.NewMsgBlock(&h)
		for _, t := range txs {
			b.AddTransaction(t)
		}
		hdrs = append(hdrs, h)
		blocks = append(blocks, b)
		kinds = append(kinds, kind)
		prev = h.BlockHash()
	}
	return
}

func cloneBlock(b *wire.MsgBlock) *wire.MsgBlock {
	var buf bytes.Buffer
	if err := b.Serialize(&buf); err != nil {
		panic(err)
	}
	var c wire.MsgBlock
	if err := c.Deserialize(&buf); err != nil {
		panic(err)
	}
	return &c
}

var mutations = []string{"good", "good", "good", "swap", "addtx", "rmtx", "duplast", "stripwit", "forgenonce",
	"witmut", "addwit", "badroot", "nocommit", "extranonce", "shortnonce", "emptytx", "recommit"}

// mutate returns a variant of the true block b.
func mutate(r *rand.Rand, b *wire.MsgBlock, how string) *wire.MsgBlock {
	c := cloneBlock(b)
	n := len(c.Transactions)
	switch how {
	case "good":
	case "swap":
		if n >= 3 {
			c.Transactions[1], c.Transactions[2] = c.Transactions[2], c.Transactions[1]
		} else if n == 2 {
			c.Transactions[0], c.Transactions[1] = c.Transactions[1], c.Transactions[0]
		} else {
			c.Transactions = append(c.Transactions, newTx(r, false))
		}
	case "addtx":
		c.Transactions = append(c.Transactions, newTx(r, r.Intn(2) == 0))
	case "rmtx":
		if n >= 2 {
			i := 1 + r.Intn(n-1)
			c.Transactions = append(c.Transactions[:i], c.Transactions[i+1:]...)
		} else {
			c.Transactions = nil
		}
	case "duplast":
		// CVE-2012-2459 shape: with an odd count the root is unchanged
		c.Transactions = append(c.Transactions, c.Transactions[n-1])
	case "stripwit":
		for _, t := range c.Transactions {
			for _, in := range t.TxIn {
				in.Witness = nil
			}
		}
	case "forgenonce":
		if len(c.Transactions[0].TxIn) > 0 && len(c.Transactions[0].TxIn[0].Witness) == 1 {
			w := append([]byte{}, c.Transactions[0].TxIn[0].Witness[0]...)
			w[r.Intn(len(w))] ^= 1 << uint(r.Intn(8))
			c.Transactions[0].TxIn[0].Witness = wire.TxWitness{w}
		} else {
			c.Transactions[0].TxIn[0].Witness = wire.TxWitness{make([]byte, 32)}
		}
	case "extranonce":
		c.Transactions[0].TxIn[0].Witness = append(c.Transactions[0].TxIn[0].Witness, make([]byte, 32))
	case "shortnonce":
		c.Transactions[0].TxIn[0].Witness = wire.TxWitness{make([]byte, 31)}
	case "witmut":
		done := false
		for _, t := range c.Transactions[1:] {
			if len(t.TxIn[0].Witness) > 0 && !done {
				w := append([]byte{}, t.TxIn[0].Witness[0]...)
				w[r.Intn(len(w))] ^= 0x40
				t.TxIn[0].Witness[0] = w
				done = true
			}
		}
		if !done && n > 1 {
			c.Transactions[n-1].TxIn[0].Witness = wire.TxWitness{[]byte{1, 2, 3}}
		}
	case "addwit":
		c.Transactions[n-1].TxIn[0].Witness = append(c.Transactions[n-1].TxIn[0].Witness, []byte{7, 7})
	case "badroot":
		c.Header.MerkleRoot[r.Intn(32)] ^= 0x10
		solve(&c.Header)
	case "nocommit":
		// drop the commitment output but keep the txids?  impossible: the
		// output is part of the coinbase txid, so this one fails the root
		cb := c.Transactions[0]
		if len(cb.TxOut) > 1 {
			cb.TxOut = cb.TxOut[:len(cb.TxOut)-1]
		}
	case "emptytx":
		c.Transactions = nil
	case "recommit":
		// a different tx list with a consistent commitment and a re-solved
		// header: a perfectly valid OTHER block at the same position
		c.Transactions = append(c.Transactions, newTx(r, true))
		cb := c.Transactions[0]
		if len(cb.TxOut) > 1 {
			cb.TxOut = cb.TxOut[:1]
		}
		addCommitment(c.Transactions, 0x5a)
		c.Header.MerkleRoot = blockchain.CalcMerkleRoot(utxs(c.Transactions), false)
		solve(&c.Header)
	}
	return c
}

// ---------------------------------------------------------------------------
// scripted dispatcher

type resp struct {
	peer int
	msg  wire.Message
	tok  string
}

type progRec struct {
	inv  wire.InvVect
	prog []string
}

type disp struct {
	cs      *neutrino.ChainService
	resps   []resp
	cont    bool
	verdict string
	prog    []string
	nq      int
	reqOK   bool
	want    wire.InvVect

	// concurrent callers (conc op): every Query call replays the same script;
	// a call is held until all callers have issued theirs (or 60 ms have
	// passed: a caller that waits for somebody else's download never does)
	mu       sync.Mutex
	barrierN int
	arrived  int
	progs    []progRec
	quitOnce sync.Once
}

func (d *disp) Start() error { return nil }
func (d *disp) Stop() error  { return nil }

func peerAddr(p int) string { return fmt.Sprintf("10.0.0.%d:8333", p) }

func progTok(p query.Progress) string {
	switch {
	case p.Finished && p.Progressed:
		return "f"
	case !p.Finished && !p.Progressed:
		return "n"
	}
	return "x"
}

func (d *disp) Query(reqs []*query.Request, _ ...query.QueryOption) chan error {
	ch := make(chan error, 1)
	d.mu.Lock()
	d.nq++
	conc := d.barrierN > 1
	d.arrived++
	d.mu.Unlock()
	if conc {
		deadline := time.Now().Add(60 * time.Millisecond)
		for time.Now().Before(deadline) {
			d.mu.Lock()
			a := d.arrived
			d.mu.Unlock()
			if a >= d.barrierN {
				break
			}
			time.Sleep(200 * time.Microsecond)
		}
	}
	var inv wire.InvVect
	ok := false
	if len(reqs) == 1 {
		if gd, isGD := reqs[0].Req.(*wire.MsgGetData); isGD && len(gd.InvList) == 1 {
			inv = *gd.InvList[0]
			ok = conc || inv == d.want
		}
	}
	var prog []string
	if len(reqs) >= 1 {
		for _, r := range d.resps {
			p := reqs[0].HandleResp(reqs[0].Req, r.msg, peerAddr(r.peer))
			prog = append(prog, progTok(p))
			if p.Finished && !d.cont {
				break
			}
		}
	}
	d.mu.Lock()
	d.reqOK = ok
	if conc {
		d.progs = append(d.progs, progRec{inv, prog})
	} else {
		d.prog = prog
	}
	d.mu.Unlock()
	switch d.verdict {
	case "nil":
		ch <- nil
	case "err":
		ch <- errScript
	case "quit":
		d.quitOnce.Do(d.cs.VerifCloseQuit)
	}
	return ch
}

// ---------------------------------------------------------------------------

type world struct {
	dir    string
	db     walletdb.DB
	bs     headerfs.BlockHeaderStore
	ban    *recBan
	cache  *lru.Cache[wire.InvVect, *neutrino.CacheableBlock]
	cs     *neutrino.ChainService
	d      *disp
	hdrs   []wire.BlockHeader
	blocks []*wire.MsgBlock
	kinds  []int
	hid    map[chainhash.Hash]int // header hash -> id
	rid    map[[32]byte]int       // serialized block -> id
	ts     blockchain.MedianTimeSource
	lo, n   int // window of the universe this case uses: heights lo+1..lo+n
}

// universe: one real block-header store (creating one costs ~0.3 s because of
// its sharded index) holding a chain of generated blocks, shared read-only by
// all cases.  Each case works on a window of it.
type universe struct {
	dir    string
	db     walletdb.DB
	bs     headerfs.BlockHeaderStore
	hdrs   []wire.BlockHeader
	blocks []*wire.MsgBlock
	kinds  []int
}

var uni *universe

var caseNo int

// memBan is a map-backed banman.Store (used only where fsync is expensive).
type memBan struct{ m map[string]banman.Status }

var banMu sync.Mutex // the handler may run on several callers' goroutines (conc op)

func (b *memBan) BanIPNet(n *net.IPNet, r banman.Reason, d time.Duration) error {
	banMu.Lock()
	defer banMu.Unlock()
	b.m[n.String()] = banman.Status{Banned: true, Reason: r, Expiration: time.Now().Add(d)}
	return nil
}
func (b *memBan) Status(n *net.IPNet) (banman.Status, error) { return b.m[n.String()], nil }
func (b *memBan) UnbanIPNet(n *net.IPNet) error              { delete(b.m, n.String()); return nil }

const uniBlocks = 40

func getUniverse(r *rand.Rand) *universe {
	if uni != nil {
		return uni
	}
	dir, err := os.MkdirTemp("", "blkuni")
	if err != nil {
		panic(err)
	}
	db, err := walletdb.Create("bdb", filepath.Join(dir, "n.db"), true, 10*time.Second, false)
	if err != nil {
		panic(err)
	}
	bs, err := headerfs.NewBlockHeaderStore(dir, db, &params)
	if err != nil {
		panic(err)
	}
	u := &universe{dir: dir, db: db, bs: bs}
	u.hdrs, u.blocks, u.kinds = buildChain(r, uniBlocks)
	bh := make([]headerfs.BlockHeader, len(u.hdrs))
	for i := range u.hdrs {
		h := u.hdrs[i]
		bh[i] = headerfs.BlockHeader{BlockHeader: &h, Height: uint32(i + 1)}
	}
	if err := bs.WriteHeaders(bh...); err != nil {
		panic(err)
	}
	uni = u
	return u
}

func newWorld(r *rand.Rand, nblocks int, cap uint64) *world {
	u := getUniverse(r)
	// Every ban is one bbolt write transaction (an fsync): keep the real ban
	// store on a memory file system when there is one, otherwise use the real
	// store in every 8th case only and a map-backed banman.Store in the rest.
	base, fast := "", false
	if st, err := os.Stat("/dev/shm"); err == nil && st.IsDir() {
		base, fast = "/dev/shm", true
	}
	dir, err := os.MkdirTemp(base, "verif-blkcase")
	if err != nil {
		dir, err = os.MkdirTemp("", "verif-blkcase")
		fast = false
		if err != nil {
			panic(err)
		}
	}
	caseNo++
	var db walletdb.DB
	var ban banman.Store
	if fast || caseNo%8 == 0 {
		db, err = walletdb.Create("bdb", filepath.Join(dir, "ban.db"), true, 10*time.Second, false)
		if err != nil {
			panic(err)
		}
		ban, err = banman.NewStore(db)
		if err != nil {
			panic(err)
		}
	} else {
		ban = &memBan{m: map[string]banman.Status{}}
	}
	w := &world{dir: dir, db: db, bs: u.bs, ban: &recBan{Store: ban, banned: map[string]bool{}, reason: map[string]banman.Reason{}},
		hid: map[chainhash.Hash]int{}, rid: map[[32]byte]int{}, ts: blockchain.NewMedianTime(),
		hdrs: u.hdrs, blocks: u.blocks, kinds: u.kinds, lo: r.Intn(uniBlocks - nblocks + 1), n: nblocks}
	for i := range w.hdrs {
		w.hid[w.hdrs[i].BlockHash()] = i + 1
	}
	w.cache = lru.NewCache[wire.InvVect, *neutrino.CacheableBlock](cap)
	w.d = &disp{}
	w.cs = neutrino.VerifNewQueryService(neutrino.VerifQueryParts{
		Params: params, TimeSource: w.ts, BlockHeaders: w.bs, BlockCache: w.cache, BanStore: w.ban, WorkManager: w.d,
	})
	w.d.cs = w.cs
	return w
}

func (w *world) close() {
	w.cs.VerifCloseQuit()
	if w.db != nil {
		w.db.Close()
	}
	os.RemoveAll(w.dir)
}

func (w *world) hdrID(h chainhash.Hash) int {
	if id, ok := w.hid[h]; ok {
		return id
	}
	id := 100 + len(w.hid) // ids of headers outside the stored chain
	w.hid[h] = id
	return id
}

func (w *world) blockID(b *wire.MsgBlock) int {
	var buf bytes.Buffer
	if err := b.Serialize(&buf); err != nil {
		panic(err)
	}
	k := sha256.Sum256(buf.Bytes())
	if id, ok := w.rid[k]; ok {
		return id
	}
	id := 1 + len(w.rid)
	w.rid[k] = id
	return id
}

func b01(b bool) string {
	if b {
		return "1"
	}
	return "0"
}

// preds computes, on a private copy, the predicates of the property with btcd.
func (w *world) preds(b *wire.MsgBlock) (sane, merkle, wit bool) {
	c := btcutil.NewBlock(cloneBlock(b))
	sane = blockchain.CheckBlockSanity(c, params.PowLimit, w.ts) == nil
	c2 := btcutil.NewBlock(cloneBlock(b))
	if len(c2.Transactions()) > 0 {
		root := blockchain.CalcMerkleRoot(c2.Transactions(), false)
		merkle = root == b.Header.MerkleRoot
	}
	c3 := btcutil.NewBlock(cloneBlock(b))
	wit = blockchain.ValidateWitnessCommitment(c3) == nil
	return
}

func (w *world) mkResp(t *tr.W, r *rand.Rand, peer int, target int) resp {
	x := r.Intn(100)
	switch {
	case x < 8:
		var m wire.Message
		switch r.Intn(4) {
		case 0:
			m = newTx(r, true)
		case 1:
			m = wire.NewMsgHeaders()
		case 2:
			m = wire.NewMsgNotFound()
		default:
			h := w.hdrs[0].BlockHash()
			m = wire.NewMsgCFilter(wire.GCSFilterRegular, &h, []byte{0})
		}
		t.Hit("blk.resp.nonblock")
		return resp{peer: peer, msg: m, tok: fmt.Sprintf("%d:o:0:0:000:0", peer)}
	}
	// which true block to derive from
	src := target
	if src < 1 || src > len(w.blocks) || x < 20 {
		src = w.lo + 1 + r.Intn(w.n)
	}
	how := mutations[r.Intn(len(mutations))]
	b := mutate(r, w.blocks[src-1], how)
	if r.Intn(7) == 0 && how != "badroot" && how != "recommit" {
		// a sibling header: same parent and merkle root as the source header, another
		// timestamp / nonce / version, proof of work valid for its own bits -> another HASH
		switch r.Intn(3) {
		case 0:
			b.Header.Timestamp = b.Header.Timestamp.Add(time.Duration(1+r.Intn(50)) * time.Second)
		case 1:
			b.Header.Version++
		default:
			b.Header.Nonce += 1 + uint32(r.Intn(1000))
		}
		solve(&b.Header)
		if b.Header.BlockHash() == w.hdrs[src-1].BlockHash() {
			b.Header.Nonce++
			solve(&b.Header)
		}
		how += "+remine"
		t.Hit("blk.mut.remine")
	}
	s, m, wt := w.preds(b)
	hid := w.hdrID(b.Header.BlockHash())
	// which stored header shares parent and merkle root with this one (0: none)
	sib := 0
	for i := range w.hdrs {
		if w.hdrs[i].PrevBlock == b.Header.PrevBlock && w.hdrs[i].MerkleRoot == b.Header.MerkleRoot {
			sib = i + 1
		}
	}
	if sib != 0 && sib != hid {
		t.Hit("blk.resp.sibling")
		if sib == target {
			t.Hit("blk.resp.sibling-of-target." + b01(s) + b01(m) + b01(wt))
		}
	}
	t.Hit("blk.mut." + how)
	cls := "other"
	if hid == target {
		cls = "target." + b01(s) + b01(m) + b01(wt)
	}
	t.Hit("blk.resp." + cls)
	return resp{peer: peer, msg: b, tok: fmt.Sprintf("%d:b:%d:%d:%s%s%s:%d:%d", peer, w.blockID(b), hid,
		b01(s), b01(m), b01(wt), b.SerializeSize(), sib)}
}

// recBan forwards to the real banman store and records which networks were
// banned (the per-call observation); the real store is read back once per case.
type recBan struct {
	banman.Store
	banned map[string]bool
	reason map[string]banman.Reason
}

func (b *recBan) BanIPNet(n *net.IPNet, r banman.Reason, d time.Duration) error {
	err := b.Store.BanIPNet(n, r, d)
	if err == nil {
		banMu.Lock()
		b.banned[n.String()] = true
		b.reason[n.String()] = r
		banMu.Unlock()
	}
	return err
}

func (w *world) banList(real bool) string {
	var bans []string
	for p := 1; p <= 5; p++ {
		ipn, err := banman.ParseIPNet(peerAddr(p), nil)
		if err != nil {
			panic(err)
		}
		if real {
			st, err := w.ban.Store.Status(ipn)
			if err != nil {
				panic(err)
			}
			if st.Banned && st.Reason == banman.InvalidBlock {
				bans = append(bans, strconv.Itoa(p))
			}
		} else if w.ban.banned[ipn.String()] {
			bans = append(bans, strconv.Itoa(p))
		}
	}
	return "[" + strings.Join(bans, " ") + "]"
}

func (w *world) dump() (string, string) {
	bans := w.banList(false)
	var ents []string
	w.cache.RangeFILO(func(k wire.InvVect, v *neutrino.CacheableBlock) bool {
		enc := 0
		if k.Type == wire.InvTypeBlock {
			enc = 1
		}
		sz, _ := v.Size()
		// 4th field: the cached block's own header hash is the hash it is cached under
		ents = append(ents, fmt.Sprintf("%d:%d:%d:%s", 2*w.hdrID(k.Hash)+enc, w.blockID(v.Block.MsgBlock()), sz,
			b01(v.Block.MsgBlock().Header.BlockHash() == k.Hash)))
		return true
	})
	return bans, "[" + strings.Join(ents, " ") + "]"
}

type callRes struct {
	blk *btcutil.Block
	err error
}

func (w *world) classify(cr callRes, targetHash chainhash.Hash) string {
	switch {
	case cr.err == nil && cr.blk != nil:
		mb := cr.blk.MsgBlock()
		_, m, wt := w.preds(mb)
		return fmt.Sprintf("ret:%d:%s%s%s", w.blockID(mb), b01(mb.Header.BlockHash() == targetHash), b01(m), b01(wt))
	case cr.err == nil:
		return "err:nilnil" // neither a block nor an error
	case cr.err == errScript:
		return "err:query"
	case cr.err == neutrino.ErrShuttingDown:
		return "err:quit"
	case strings.HasPrefix(cr.err.Error(), "PANIC"):
		return "PANIC"
	case strings.Contains(cr.err.Error(), "couldn't get header"):
		return "err:nohdr"
	case strings.Contains(cr.err.Error(), "couldn't retrieve block"):
		return "err:notfound"
	}
	return "err:other"
}

// conc runs len(targets) overlapping GetBlock calls (same script for every
// download) and reports each caller's outcome.
func (w *world) conc(t *tr.W, targets []int, enc int, cont bool, verdict string, resps []resp) string {
	d := w.d
	d.resps, d.cont, d.verdict, d.prog, d.nq = resps, cont, verdict, nil, 0
	d.barrierN, d.arrived, d.progs = len(targets), 0, nil
	defer func() { d.barrierN = 0 }()
	it := wire.InvTypeWitnessBlock
	var opts []neutrino.QueryOption
	if enc == 1 {
		it = wire.InvTypeBlock
		opts = append(opts, neutrino.Encoding(wire.BaseEncoding))
	}
	chs := make([]chan callRes, len(targets))
	for i, tg := range targets {
		i, th := i, w.hdrs[tg-1].BlockHash()
		chs[i] = make(chan callRes, 1)
		go func() {
			defer func() {
				if e := recover(); e != nil {
					chs[i] <- callRes{err: fmt.Errorf("PANIC %v", e)}
				}
			}()
			b, err := w.cs.GetBlock(th, opts...)
			chs[i] <- callRes{b, err}
		}()
	}
	var results, progs []string
	for i, tg := range targets {
		th := w.hdrs[tg-1].BlockHash()
		res := "HANG"
		select {
		case cr := <-chs[i]:
			res = w.classify(cr, th)
		case <-time.After(5 * time.Second):
		}
		results = append(results, res)
		if strings.HasPrefix(res, "ret:") {
			t.Hit("blk.conc.result.ret")
		} else {
			t.Hit("blk.conc.result." + res)
		}
	}
	d.mu.Lock()
	for _, tg := range targets {
		inv := wire.InvVect{Type: it, Hash: w.hdrs[tg-1].BlockHash()}
		pr := "-"
		for _, rec := range d.progs {
			if rec.inv == inv {
				pr = strings.Join(rec.prog, ",")
				if pr == "" {
					pr = "."
				}
				break
			}
		}
		progs = append(progs, pr)
	}
	nq := d.nq
	d.mu.Unlock()
	bans, cache := w.dump()
	return fmt.Sprintf("[%s] q%d progs [%s] ban %s cache %s", strings.Join(results, " "), nq, strings.Join(progs, " "), bans, cache)
}

func (w *world) getBlock(t *tr.W, target int, targetHash chainhash.Hash, enc int, cont bool, verdict string, resps []resp) string {
	d := w.d
	d.resps, d.cont, d.verdict, d.prog, d.nq = resps, cont, verdict, nil, 0
	it := wire.InvTypeWitnessBlock
	var opts []neutrino.QueryOption
	if enc == 1 {
		it = wire.InvTypeBlock
		opts = append(opts, neutrino.Encoding(wire.BaseEncoding))
	}
	d.want = wire.InvVect{Type: it, Hash: targetHash}
	ch := make(chan callRes, 1)
	go func() {
		defer func() {
			if e := recover(); e != nil {
				ch <- callRes{err: fmt.Errorf("PANIC %v", e)}
			}
		}()
		b, err := w.cs.GetBlock(targetHash, opts...)
		ch <- callRes{b, err}
	}()
	var res string
	select {
	case cr := <-ch:
		res = w.classify(cr, targetHash)
	case <-time.After(5 * time.Second):
		res = "HANG"
	}
	if strings.HasPrefix(res, "ret:") {
		t.Hit("blk.result.ret")
	} else {
		t.Hit("blk.result." + res)
	}
	q := fmt.Sprintf("q%d", d.nq)
	if d.nq > 0 && !d.reqOK {
		q += "!" // the request was not one getdata for the wanted inv
	}
	bans, cache := w.dump()
	return fmt.Sprintf("%s %s prog [%s] ban %s cache %s", res, q, strings.Join(d.prog, " "), bans, cache)
}

func runCase(t *tr.W, r *rand.Rand) {
	nblocks := 2 + r.Intn(4)
	// block sizes are ~150..900 bytes
	var cap uint64
	switch r.Intn(4) {
	case 0:
		cap = uint64(200 + r.Intn(300)) // many blocks do not fit at all
	case 1:
		cap = uint64(600 + r.Intn(900))
	default:
		cap = uint64(1500 + r.Intn(3000))
	}
	w := newWorld(r, nblocks, cap)
	defer w.close()
	t.Case("blk cap %d", cap)
	var kinds []string
	for _, k := range w.kinds[w.lo : w.lo+w.n] {
		kinds = append(kinds, strconv.Itoa(k))
	}
	t.Line("# heights %d..%d, block kinds: %s", w.lo+1, w.lo+w.n, strings.Join(kinds, " "))
	nops := 3 + r.Intn(7)
	quitUsed := false
	for j := 0; j < nops; j++ {
		target := w.lo + 1 + r.Intn(nblocks)
		if r.Intn(3) > 0 {
			target = w.lo + 1 + r.Intn(2) // concentrate: cache hits, repeated bans
		}
		var th chainhash.Hash
		known := 1
		if r.Intn(12) == 0 {
			r.Read(th[:])
			target = w.hdrID(th)
			known = 0
		} else {
			th = w.hdrs[target-1].BlockHash()
		}
		enc := 0
		if r.Intn(6) == 0 {
			enc = 1
		}
		cont := r.Intn(6) == 0
		verdict := "nil"
		switch x := r.Intn(14); {
		case x == 0:
			verdict = "err"
		case x == 1 && j == nops-1:
			verdict = "quit"
		}
		var resps []resp
		for n := r.Intn(7); n > 0; n-- {
			rp := w.mkResp(t, r, 1+r.Intn(4), target)
			resps = append(resps, rp)
			if r.Intn(8) == 0 { // duplicate, maybe from another peer
				dup := rp
				if r.Intn(2) == 0 {
					dup.peer = 1 + r.Intn(4)
					dup.tok = strconv.Itoa(dup.peer) + dup.tok[strings.Index(dup.tok, ":"):]
				}
				resps = append(resps, dup)
				t.Hit("blk.resp.duplicate")
			}
		}
		toks := make([]string, len(resps))
		for i, rp := range resps {
			toks[i] = rp.tok
		}
		quitUsed = quitUsed || verdict == "quit"
		obs := w.getBlock(t, target, th, enc, cont, verdict, resps)
		t.Op(fmt.Sprintf("getblock %d %d %d %s %s [%s]", target, known, enc, b01(cont), verdict, strings.Join(toks, " ")), obs)
		if strings.HasPrefix(obs, "HANG") || strings.HasPrefix(obs, "PANIC") {
			return
		}
	}
	// Overlapping calls: 2-3 callers ask at the same time for a block that is not cached (the last one
	// sometimes for another block); every download is answered with the same script and verdict.
	if !quitUsed && r.Intn(3) == 0 {
		enc := 0
		if r.Intn(6) == 0 {
			enc = 1
		}
		cached := map[int]bool{}
		w.cache.RangeFILO(func(k wire.InvVect, v *neutrino.CacheableBlock) bool {
			e := 0
			if k.Type == wire.InvTypeBlock {
				e = 1
			}
			if e == enc {
				cached[w.hdrID(k.Hash)] = true
			}
			return true
		})
		var free []int
		for h := w.lo + 1; h <= w.lo+nblocks; h++ {
			if !cached[h] {
				free = append(free, h)
			}
		}
		if len(free) > 0 {
			main := free[r.Intn(len(free))]
			targets := []int{main, main}
			if r.Intn(2) == 0 {
				targets = append(targets, main)
			}
			if len(free) > 1 && r.Intn(3) == 0 {
				targets[len(targets)-1] = free[r.Intn(len(free))]
			}
			cont := r.Intn(6) == 0
			verdict := []string{"nil", "nil", "err", "err", "quit"}[r.Intn(5)]
			var resps []resp
			for n := r.Intn(6); n > 0; n-- {
				resps = append(resps, w.mkResp(t, r, 1+r.Intn(4), main))
			}
			toks := make([]string, len(resps))
			for i, rp := range resps {
				toks[i] = rp.tok
			}
			var ts []string
			for _, x := range targets {
				ts = append(ts, strconv.Itoa(x))
			}
			t.Hit("blk.conc.verdict." + verdict)
			obs := w.conc(t, targets, enc, cont, verdict, resps)
			t.Op(fmt.Sprintf("conc %d %s %s [%s] [%s]", enc, b01(cont), verdict, strings.Join(ts, " "), strings.Join(toks, " ")), obs)
			if strings.Contains(obs, "HANG") || strings.Contains(obs, "PANIC") {
				return
			}
		}
	}
	// what the real (bbolt) ban store says at the end of the case
	t.Op("banstore", w.banList(true))
}

func init() {
	tr.Register("block", func(t *tr.W, thorough bool) {
		r := tr.Rng(6)
		n := tr.EnvInt("VERIF_BUDGET", 1) * tr.EnvInt("BLK_CASES", 600)
		if thorough {
			n *= 12
		}
		if os.Getenv("VERIF_SEARCH") != "" && n > 10*tr.EnvInt("BLK_CASES", 600) {
			// bin/check's search pass after a broken tie: keep a failing quick run short
			n = 10 * tr.EnvInt("BLK_CASES", 600)
		}
		for i := 0; i < n; i++ {
			runCase(t, r)
		}
	})
}
