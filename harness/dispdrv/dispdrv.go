// Package dispdrv drives the REAL query work dispatcher
// (query/workmanager.go workDispatcher) in-process with scripted workers and
// peers, one event at a time, and writes the line protocol (package tr).
//
// Determinism: every dispatcher event is a synchronous hand-off on one of the
// dispatcher's own channels (newBatches, peersConnected, jobResults) or a
// wake posted through the verif hook; after each event the driver runs a
// barrier (two sentinel wakes for a batch number that does not exist, waiting
// until the dispatcher has taken them) so that everything the event caused
// has happened before the observations are read.  The PeerRanking handed to
// the work manager is the stock ranking wrapped so that each Order call (the
// dispatcher is at the top of its loop with a non-empty queue) parks the
// dispatcher until the driver has decided what the free workers do.
package dispdrv

import (
	"bufio"
	"bytes"
	"errors"
	"fmt"
	"math/rand"
	"os"
	"os/exec"
	"reflect"
	"runtime"
	"sort"
	"strconv"
	"strings"
	"sync"
	"time"

	"github.com/btcsuite/btcd/wire/v2"
	"github.com/lightninglabs/neutrino/query"
	"verifharness/tr"
)

func init() {
	tr.Register("dispatcher", Run)
	tr.Register("dispchild", child)
}

// sink is the child's side of the pipe to the parent: every line is written
// straight to the file, so that whatever was observed before a panic in the
// dispatcher goroutine (which no recover of ours can catch) survives.
type sink struct{ f *os.File }

func (o *sink) line(format string, a ...any) { fmt.Fprintf(o.f, format+"\n", a...) }
func (o *sink) Hit(k string)                 { o.line("#hit %s", k) }

const (
	watchdog  = 2 * time.Second
	maxHungCases = 3
	sentinel  = ^uint64(0)
	midDur    = 80 * time.Millisecond
	midSleep  = 130 * time.Millisecond
	midGuard  = 40 * time.Millisecond
	// staggered offers: how often, and for how long the best-ranked free
	// workers stay away from their job channels
	staggerPct = 40
	staggerDur = 3 * time.Millisecond
	hugeDur   = time.Hour
	maxPeers  = 4
	errOther  = "other"
	errOK     = "ok"
	errTO     = "timeout"
	errDisc   = "disc"
	errCancel = "canceled"
)

var errSome = errors.New("scripted failure")

// ---- peers -------------------------------------------------------------

type peer struct {
	id   int
	disc chan struct{}
}

func (p *peer) QueueMessageWithEncoding(wire.Message, chan<- struct{}, wire.MessageEncoding) {}
func (p *peer) SubscribeRecvMsg() (<-chan wire.Message, func())                           { return nil, func() {} }
func (p *peer) Addr() string                                                               { return fmt.Sprintf("p%d", p.id) }
func (p *peer) OnDisconnect() <-chan struct{}                                              { return p.disc }

func addrID(a string) int {
	var n int
	fmt.Sscanf(a, "p%d", &n)
	return n
}

// ---- ranking wrapper ---------------------------------------------------

type orderCall struct {
	peers  []string
	scores []uint64
}

type rankW struct {
	inner   query.PeerRanking
	mu      sync.Mutex
	score   map[string]uint64
	orderCh chan orderCall
	resume  chan struct{}
	quit    chan struct{}
}

// note records the score the ranking effectively uses for p after a call that
// names p: its entry, or the default when it has none.
func (r *rankW) note(p string) {
	r.mu.Lock()
	s, ok := query.VerifScore(r.inner, p)
	if !ok {
		s = 4
	}
	r.score[p] = s
	r.mu.Unlock()
}
func (r *rankW) AddPeer(p string)      { r.inner.AddPeer(p); r.note(p) }
func (r *rankW) Reward(p string)       { r.inner.Reward(p); r.note(p) }
func (r *rankW) Punish(p string)       { r.inner.Punish(p); r.note(p) }
func (r *rankW) ResetRanking(p string) { r.inner.ResetRanking(p); r.note(p) }
func (r *rankW) Order(peers []string) {
	r.inner.Order(peers)
	oc := orderCall{peers: append([]string(nil), peers...)}
	for _, p := range peers {
		s, ok := query.VerifScore(r.inner, p)
		if !ok {
			s = 4
		}
		oc.scores = append(oc.scores, s)
	}
	select {
	case r.orderCh <- oc:
	case <-r.quit:
		return
	}
	select {
	case <-r.resume:
	case <-r.quit:
	}
}
func (r *rankW) get(p string) uint64 {
	r.mu.Lock()
	defer r.mu.Unlock()
	return r.score[p]
}

// ---- one case ----------------------------------------------------------

type batchT struct {
	id      int
	n       int
	prog    bool
	hard    string // never now mid
	created time.Time
	elapsed bool
	errChan chan error
	cancel  chan struct{}
	canc    bool
	got     []string
	oks     int
	dead    bool
}

type workerT struct {
	id     int
	w      *query.VerifWorker
	held   *query.VerifJob
	exited bool
}

type line struct{ op, obs string }

type caseRun struct {
	t        *sink
	rng      *rand.Rand
	wm       query.WorkManager
	rk       *rankW
	peerCh   chan query.Peer
	workers  map[int]*workerT
	batches  []*batchT
	reqs     map[*query.Request][2]int
	pending  func() // emits the line of the last dispatcher event
	maxTries []int
	mtMu     sync.Mutex
	stopped  bool
	hung     bool
	skewed   bool
	allowMid bool
	quitInOffer bool
	// a free worker was made to exit while the dispatcher was about to offer
	// it the head job (a hang after that is reported with this tag)
	exitedWhileOffered bool
	// no shutdown before the case's churn burst has happened
	holdQuit bool
	// workers of an earlier connection whose address was taken over by a newer
	// connection while they held a job: they are still running and still owe
	// the dispatcher the one result for that job
	old []*workerT
}

func (c *caseRun) hangObs() string {
	if c.exitedWhileOffered {
		return "HANG after-exit-while-offered"
	}
	return "HANG"
}

func verdictName(err error) string {
	switch err {
	case nil:
		return errOK
	case query.ErrQueryTimeout:
		return errTO
	case query.ErrPeerDisconnected:
		return errDisc
	case query.ErrJobCanceled:
		return errCancel
	case query.ErrWorkManagerShuttingDown:
		return "shutdown"
	}
	return errOther
}

func (c *caseRun) emit(op, obs string) { c.t.line("L %s => %s", op, obs) }

// begin marks the event that is about to be handed to the dispatcher; if the
// process dies before its line is written the parent reports it as PANIC.
func (c *caseRun) begin(op string) { c.t.line("B %s", op) }

// drain reads every verdict currently sitting in a result channel.
func (c *caseRun) drain() string {
	var vs []string
	for _, b := range c.batches {
		for {
			select {
			case err := <-b.errChan:
				v := verdictName(err)
				b.got = append(b.got, v)
				b.dead = true
				vs = append(vs, fmt.Sprintf("%d:%s", b.id, v))
				c.t.Hit("verdict." + v)
				continue
			default:
			}
			break
		}
	}
	return "v=[" + strings.Join(vs, " ") + "]"
}

func (c *caseRun) flush() {
	if c.pending != nil {
		f := c.pending
		c.pending = nil
		f()
	}
}

func (c *caseRun) liveFree() []*workerT {
	var out []*workerT
	for _, w := range c.workers {
		if !w.exited && w.held == nil {
			out = append(out, w)
		}
	}
	sort.Slice(out, func(i, j int) bool { return out[i].id < out[j].id })
	return out
}

// handleOffer is called with the dispatcher parked inside Order.
func (c *caseRun) handleOffer(oc orderCall, quitting bool) {
	resume := func() {
		select {
		case c.rk.resume <- struct{}{}:
		case <-time.After(watchdog):
			c.hung = true
		}
	}
	var live []*workerT
	var toks []string
	for i, a := range oc.peers {
		w := c.workers[addrID(a)]
		flag := "x"
		if w != nil && !w.exited {
			flag = "l"
			live = append(live, w)
		}
		toks = append(toks, fmt.Sprintf("%d:%d:%s", addrID(a), oc.scores[i], flag))
	}
	if len(live) == 0 || quitting {
		resume()
		return
	}
	c.flush()
	c.emit("order", "["+strings.Join(toks, " ")+"]")
	c.t.Hit("order")
	if len(live) > 1 {
		c.t.Hit("order.several-free")
	}
	// some of the free workers exit before the dispatcher reaches them
	var rest []*workerT
	for _, w := range live {
		if c.rng.Intn(100) < 4 {
			c.exitedWhileOffered = true
			c.exitWorker(w, "exit.while-offered")
		} else {
			rest = append(rest, w)
		}
	}
	if len(rest) > 0 && !c.stopped && !c.holdQuit && c.rng.Intn(100) < 2 {
		c.quitInOffer = true
		resume()
		c.t.Hit("quit.while-offering")
		c.doQuit()
		return
	}
	// "free by the dispatcher's bookkeeping" is not "receiving on its job
	// channel": a real worker that has just delivered a result needs a moment
	// to get back to its idle select.  In a staggered offer the best-ranked
	// free workers are in that state for a controlled moment while every
	// worse-ranked free worker is already parked at its channel; the
	// dispatcher must wait for the best-ranked one (or its exit).
	score := map[int]uint64{}
	for i, a := range oc.peers {
		score[addrID(a)] = oc.scores[i]
	}
	var late, early []*workerT
	if len(rest) >= 2 {
		best := score[rest[0].id]
		for _, w := range rest {
			if score[w.id] < best {
				best = score[w.id]
			}
		}
		for _, w := range rest {
			if score[w.id] == best {
				late = append(late, w)
			} else {
				early = append(early, w)
			}
		}
	}
	if len(early) == 0 || c.rng.Intn(100) >= staggerPct {
		late, early = nil, nil
	}
	var w *workerT
	var job query.VerifJob
	taken := false
	if len(early) > 0 {
		var ids []string
		for _, lw := range late {
			ids = append(ids, strconv.Itoa(lw.id))
		}
		c.emit("notrecv "+strings.Join(ids, " "), "-")
		c.t.Hit("offer.best-ranked-not-yet-receiving")
		type got struct {
			w *workerT
			j query.VerifJob
		}
		gotCh := make(chan got, len(early))
		abort := make(chan struct{})
		var wg sync.WaitGroup
		for _, ew := range early {
			ew := ew
			wg.Add(1)
			go func() {
				defer wg.Done()
				if j, ok := ew.w.Take(abort); ok {
					gotCh <- got{ew, j}
				}
			}()
		}
		// let the takers park at their channels before the dispatcher goes on
		for i := 0; i < 4; i++ {
			runtime.Gosched()
		}
		time.Sleep(200 * time.Microsecond)
		resume()
		var g *got
		select {
		case x := <-gotCh:
			g = &x
		case <-time.After(staggerDur):
		}
		close(abort)
		wg.Wait()
		if g == nil {
			select {
			case x := <-gotCh:
				g = &x
			default:
			}
		}
		if g != nil {
			w, job, taken = g.w, g.j, true
			c.t.Hit("offer.taken-by-worse-ranked")
		}
	} else {
		resume()
	}
	if len(rest) == 0 {
		return
	}
	if !taken {
		// the dispatcher now blocks offering the head job to one of `rest`
		cases := make([]reflect.SelectCase, 0, len(rest)+1)
		for _, w := range rest {
			cases = append(cases, reflect.SelectCase{Dir: reflect.SelectRecv, Chan: reflect.ValueOf(w.w.JobChan())})
		}
		cases = append(cases, reflect.SelectCase{Dir: reflect.SelectRecv, Chan: reflect.ValueOf(time.After(watchdog))})
		i, v, _ := reflect.Select(cases)
		if i == len(rest) {
			c.emit("accept 0", c.hangObs())
			c.hung = true
			return
		}
		w = rest[i]
		job = query.WrapJobValue(v.Interface())
	}
	w.held = &job
	id, ok := c.reqs[job.Request()]
	if !ok {
		id = [2]int{-1, -1}
	}
	c.emit(fmt.Sprintf("accept %d", w.id), fmt.Sprintf("j=%d t=%d to=%d r=%d.%d",
		job.Index(), job.Tries(), job.TimeoutNanos()/int64(time.Second), id[0], id[1]))
	c.t.Hit("accept")
	if job.Tries() > 0 {
		c.t.Hit("accept.retry")
	}
	if job.TimeoutNanos() > int64(2*time.Second) {
		c.t.Hit("accept.timeout-doubled")
	}
	if id[0] >= 0 && c.batches[id[0]].dead {
		c.t.Hit("accept.job-of-ended-batch")
	}
}

func (c *caseRun) exitWorker(w *workerT, hit string) {
	w.w.Exit()
	select {
	case <-w.w.Done():
	case <-time.After(watchdog):
		c.hung = true
	}
	w.exited = true
	c.emit(fmt.Sprintf("exit %d", w.id), "-")
	c.t.Hit(hit)
	if w.held != nil {
		c.t.Hit("exit.holding-job")
	}
}

// service waits for done while answering the dispatcher's Order calls.
func (c *caseRun) service(done <-chan struct{}, quitting bool) bool {
	if c.hung {
		return false
	}
	to := time.After(watchdog)
	for {
		select {
		case oc := <-c.rk.orderCh:
			c.handleOffer(oc, quitting || c.stopped)
			if c.hung {
				return false
			}
			if c.stopped && !quitting {
				// quit happened inside the offer: the event we were waiting on
				// may never be taken; its poster handles that.
				select {
				case <-done:
					return true
				case <-time.After(50 * time.Millisecond):
					return false
				}
			}
		case <-done:
			return true
		case <-to:
			c.hung = true
			return false
		}
	}
}

// barrier: the dispatcher has finished everything caused by earlier events.
func (c *caseRun) barrier() {
	if c.stopped || c.hung {
		c.flush()
		return
	}
	for i := 0; i < 2 && !c.stopped && !c.hung; i++ {
		if !query.VerifWake(c.wm, sentinel, 0) {
			break
		}
		deadline := time.Now().Add(watchdog)
		for query.VerifPendingWakes(c.wm) > 0 && !c.stopped && !c.hung {
			select {
			case oc := <-c.rk.orderCh:
				c.handleOffer(oc, false)
			default:
				runtime.Gosched()
				if time.Now().After(deadline) {
					c.hung = true
				}
			}
		}
	}
	c.flush()
}

func (c *caseRun) doQuit() {
	if c.stopped {
		return
	}
	c.flush()
	c.stopped = true
	c.begin("quit")
	done := make(chan struct{})
	go func() { c.wm.Stop(); close(done) }()
	if !c.service(done, true) {
		c.emit("quit", c.hangObs())
		c.hung = true
		return
	}
	close(c.rk.quit)
	c.emit("quit", c.drain())
	c.t.Hit("ev.quit")
}

func (c *caseRun) doBatch(n int, nrm bool, mr int, prog bool, hard string) {
	b := &batchT{id: len(c.batches), n: n, prog: prog, hard: hard, cancel: make(chan struct{})}
	reqs := make([]*query.Request, n)
	for k := range reqs {
		reqs[k] = &query.Request{}
		c.reqs[reqs[k]] = [2]int{b.id, k}
	}
	opts := []query.QueryOption{query.Cancel(b.cancel)}
	if mr != 2 || c.rng.Intn(2) == 0 {
		opts = append(opts, query.NumRetries(uint8(mr)))
	}
	if nrm {
		opts = append(opts, query.NoRetryMax())
	}
	if prog {
		opts = append(opts, query.ProgressTimeout(hugeDur))
	}
	switch hard {
	case "now":
		opts = append(opts, query.Timeout(1))
	case "mid":
		opts = append(opts, query.Timeout(midDur))
	}
	op := fmt.Sprintf("batch %d %d %d %d %s", n, b2i(nrm), mr, b2i(prog), hard)
	c.begin(op)
	done := make(chan struct{})
	go func() { b.errChan = c.wm.Query(reqs, opts...); close(done) }()
	b.created = time.Now()
	late := c.stopped
	// the line is written at the first synchronisation point after the
	// dispatcher took the batch (Query has returned by then or is about to)
	c.pending = func() {
		select {
		case <-done:
		case <-time.After(watchdog):
			c.hung = true
			c.emit(op, c.hangObs())
			return
		}
		c.batches = append(c.batches, b)
		c.emit(op, fmt.Sprintf("b=%d %s", b.id, c.drain()))
	}
	if !c.service(done, false) && !c.hung {
		// quit inside an offer while Query was blocked: it returns through its quit arm
		select {
		case <-done:
		case <-time.After(watchdog):
			c.hung = true
		}
	}
	if c.hung {
		c.pending = nil
		c.emit(op, c.hangObs())
		return
	}
	c.t.Hit("ev.batch")
	c.t.Hit("batch.hard-" + hard)
	if nrm {
		c.t.Hit("batch.noRetryMax")
	}
	if prog {
		c.t.Hit("batch.progress-timeout")
	}
	if n == 0 {
		c.t.Hit("batch.empty")
	}
	if late {
		c.t.Hit("batch.after-quit")
	}
	c.barrier()
}

func b2i(b bool) int {
	if b {
		return 1
	}
	return 0
}

func (c *caseRun) doPeer(id int) {
	p := &peer{id: id, disc: make(chan struct{})}
	done := make(chan struct{})
	go func() {
		select {
		case c.peerCh <- p:
			close(done)
		case <-c.rk.quit:
		}
	}()
	op := fmt.Sprintf("peer %d", id)
	c.begin(op)
	c.pending = func() { c.emit(op, c.drain()) }
	if !c.service(done, false) {
		c.pending = nil
		if !c.stopped {
			c.emit(op, c.hangObs())
			c.hung = true
		}
		return
	}
	c.t.Hit("ev.peer")
	c.barrier()
}

func (c *caseRun) doResult(w *workerT, kind string) { c.report(w, kind, false) }

// doLate: the worker of a connection that has since been replaced under the
// same address delivers the one result it owes for the job it still holds.
func (c *caseRun) doLate(w *workerT, kind string) {
	for i, ow := range c.old {
		if ow == w {
			c.old = append(c.old[:i:i], c.old[i+1:]...)
			break
		}
	}
	c.t.Hit("ev.late-result." + kind)
	c.report(w, kind, true)
}

func (c *caseRun) report(w *workerT, kind string, late bool) {
	job := *w.held
	id := c.reqs[job.Request()]
	var b *batchT
	if id[0] >= 0 && id[0] < len(c.batches) {
		b = c.batches[id[0]]
	}
	if b != nil && b.hard == "mid" && !b.elapsed && time.Since(b.created) > midGuard {
		c.skewed = true
		return
	}
	var err error
	switch kind {
	case errTO:
		err = query.ErrQueryTimeout
	case errDisc:
		err = query.ErrPeerDisconnected
	case errCancel:
		err = query.ErrJobCanceled
		if b != nil && !b.canc {
			b.canc = true
			close(b.cancel)
		}
	case errOther:
		err = errSome
	}
	c.mtMu.Lock()
	c.maxTries = nil
	c.mtMu.Unlock()
	op := fmt.Sprintf("result %d %s", w.id, kind)
	if late {
		op = fmt.Sprintf("late %d %d %s", w.id, job.Index(), kind)
	}
	disc := kind == errDisc
	if b != nil && b.dead {
		c.t.Hit("result.for-ended-batch")
	}
	if job.InternalCanceled() {
		c.t.Hit("result.after-internal-cancel")
	}
	w.held = nil
	if disc {
		// like the real worker, Run returns after delivering this result
		w.exited = true
	}
	c.pending = func() {
		c.mtMu.Lock()
		mt := len(c.maxTries)
		c.mtMu.Unlock()
		if mt > 0 {
			c.t.Hit("result.max-tries")
		}
		c.emit(op, fmt.Sprintf("j=%d %s mt=%d sc=%d", job.Index(), c.drain(), mt, c.rk.get(fmt.Sprintf("p%d", w.id))))
		if disc && !late {
			// (the address of a replaced worker denotes its successor: its
			// exit is not an event of that address)
			c.emit(fmt.Sprintf("exit %d", w.id), "-")
		}
	}
	c.begin(op)
	acked := w.w.Report(job, err)
	if !c.service(acked, false) {
		c.pending = nil
		if !c.stopped {
			c.emit(op, c.hangObs())
			c.hung = true
		}
		return
	}
	if kind == errOK && b != nil {
		b.oks++
	}
	if !late {
		c.t.Hit("ev.result." + kind)
	}
	if disc {
		select {
		case <-w.w.Done():
		case <-time.After(watchdog):
			c.hung = true
		}
	}
	c.barrier()
}

// doChurn: n short-lived peers with addresses never seen before connect and go
// away again, one after the other, while the long-lived peers stay connected.
func (c *caseRun) doChurn(first, n int) {
	c.t.Hit("ev.churn-burst")
	for k := 0; k < n && !c.hung && !c.stopped && !c.skewed; k++ {
		id := first + k
		c.doPeer(id)
		if c.hung || c.stopped {
			return
		}
		if w := c.workers[id]; w != nil && !w.exited {
			c.exitWorker(w, "ev.exit.churn")
		}
	}
}

func (c *caseRun) doWake(b, g int) {
	c.begin(fmt.Sprintf("wake %d %d", b, g))
	if !query.VerifWake(c.wm, uint64(b), uint64(g)) {
		return
	}
	c.t.Hit("ev.wake")
	c.pending = func() { c.emit(fmt.Sprintf("wake %d %d", b, g), c.drain()) }
	c.barrier()
}

func (c *caseRun) doElapse(b *batchT) {
	if d := time.Until(b.created.Add(midSleep)); d > 0 {
		time.Sleep(d)
	}
	b.elapsed = true
	c.emit(fmt.Sprintf("elapse %d", b.id), "-")
	c.t.Hit("ev.elapse")
}

func (c *caseRun) final() {
	if c.hung {
		c.emit("final", c.hangObs())
		return
	}
	c.drain()
	var ns []string
	for _, b := range c.batches {
		ns = append(ns, fmt.Sprintf("%d:%d", b.id, len(b.got)))
	}
	c.emit("final", "n=["+strings.Join(ns, " ")+"]")
}

// ---- generator ---------------------------------------------------------

func runCase(t *sink, idx int, rng *rand.Rand, steps int, allowMid bool, churn int, reconn *rand.Rand) (hung bool) {
	t.line("case %d", idx)
	c := &caseRun{t: t, rng: rng, workers: map[int]*workerT{}, reqs: map[*query.Request][2]int{},
		peerCh: make(chan query.Peer), allowMid: allowMid}
	c.rk = &rankW{inner: query.NewPeerRanking(), score: map[string]uint64{},
		orderCh: make(chan orderCall), resume: make(chan struct{}), quit: make(chan struct{})}
	c.wm = query.NewWorkManager(&query.Config{
		ConnectedPeers: func() (<-chan query.Peer, func(), error) { return c.peerCh, func() {}, nil },
		NewWorker: func(p query.Peer) query.Worker {
			w := query.NewVerifWorker(p)
			if ow := c.workers[addrID(p.Addr())]; ow != nil && !ow.exited && ow.held != nil {
				c.old = append(c.old, ow)
			}
			c.workers[addrID(p.Addr())] = &workerT{id: addrID(p.Addr()), w: w}
			return w
		},
		OnMaxTries: func(p query.Peer) {
			c.mtMu.Lock()
			c.maxTries = append(c.maxTries, addrID(p.Addr()))
			c.mtMu.Unlock()
		},
		Ranking: c.rk,
	})
	c.wm.Start()

	usedMid := false
	lateLeft := rng.Intn(3)
	churnAt := -1
	if churn > 0 {
		// peer churn at scale: the burst comes once some peers have earned a
		// record, and enough events follow for the records to show
		steps += 30
		churnAt = steps / 2
		c.holdQuit = true
	}
	for i := 0; i < steps && !c.hung && !c.skewed; i++ {
		if i == churnAt && !c.stopped {
			c.doChurn(1000, churn)
			c.holdQuit = false
			continue
		}
		if c.stopped {
			if lateLeft == 0 {
				break
			}
			lateLeft--
		}
		var holders, liveW, deadIDs []*workerT
		_ = deadIDs
		for id := 1; id <= maxPeers; id++ {
			if w := c.workers[id]; w != nil && !w.exited {
				liveW = append(liveW, w)
				if w.held != nil {
					holders = append(holders, w)
				}
			}
		}
		var freeIDs []int
		for id := 1; id <= maxPeers; id++ {
			if w := c.workers[id]; w == nil || w.exited {
				freeIDs = append(freeIDs, id)
			}
		}
		// Reconnects that overtake the old connection's worker: the peer handler
		// announces the new connection and the old worker notices the
		// disconnect concurrently, so the dispatcher may see a peer connect
		// under an address whose previous worker still has a job in flight;
		// that worker then delivers the one result it owes (disconnected, or
		// what the peer had still answered) afterwards.  (Generated while the
		// address's current worker is connected and idle.)
		if reconn != nil && !c.stopped {
			q := reconn.Intn(100)
			if q < 12 && len(holders) > 0 {
				w := holders[reconn.Intn(len(holders))]
				c.t.Hit("ev.peer.reconnect-overtakes-job-in-flight")
				c.doPeer(w.id)
				continue
			}
			if q < 45 {
				var cand []*workerT
				for _, ow := range c.old {
					if nw := c.workers[ow.id]; ow.held != nil && nw != nil && !nw.exited && nw.held == nil {
						cand = append(cand, ow)
					}
				}
				if len(cand) > 0 {
					kind := []string{errDisc, errDisc, errDisc, errDisc, errOK, errOK, errOK, errTO, errOther, errDisc}[reconn.Intn(10)]
					c.doLate(cand[reconn.Intn(len(cand))], kind)
					continue
				}
			}
		}
		r := rng.Intn(100)
		switch {
		case c.stopped:
			// after shutdown only late submissions are interesting
			c.doBatch(rng.Intn(3), false, 2, false, "never")
		case r < 18 || (len(c.batches) == 0 && r < 50):
			n := 1 + rng.Intn(4)
			if rng.Intn(25) == 0 {
				n = 0
			}
			hard := "never"
			switch h := rng.Intn(100); {
			case h < 12:
				hard = "now"
			case h < 30 && allowMid && !usedMid:
				hard = "mid"
				usedMid = true
			}
			mr := []int{0, 1, 1, 2, 2, 2, 3}[rng.Intn(7)]
			c.doBatch(n, rng.Intn(100) < 15, mr, rng.Intn(100) < 40, hard)
		case (r < 30 || (len(liveW) == 0 && r < 60)) && len(freeIDs) > 0:
			c.doPeer(freeIDs[rng.Intn(len(freeIDs))])
		case r < 80 && len(holders) > 0:
			w := holders[rng.Intn(len(holders))]
			kind := errOK
			switch k := rng.Intn(100); {
			case k < 50:
			case k < 64:
				kind = errTO
			case k < 72:
				kind = errDisc
			case k < 78:
				kind = errCancel
			default:
				kind = errOther
			}
			// a job whose batch was canceled from outside reports canceled
			if id, ok := c.reqs[w.held.Request()]; ok && c.batches[id[0]].canc && rng.Intn(4) != 0 {
				kind = errCancel
			}
			var rb *batchT
			if id, ok := c.reqs[w.held.Request()]; ok {
				rb = c.batches[id[0]]
			}
			c.doResult(w, kind)
			// the idle timer racing a successful result: the timer armed for
			// the window that this result has just closed fires while / right
			// after the result is handled (its wake carries the old window)
			if kind == errOK && rb != nil && rb.prog && !rb.dead && !c.stopped && !c.hung && !c.skewed && rng.Intn(4) == 0 {
				c.t.Hit("wake.racing-ok-result")
				c.doWake(rb.id, rb.oks)
			}
		case r < 87 && len(c.batches) > 0:
			b := c.batches[rng.Intn(len(c.batches))]
			if !b.prog && rng.Intn(4) != 0 {
				// a batch without ProgressTimeout has no idle timer; keep the
				// (hook-only) gen-0 wake rare
				continue
			}
			g := b.oks + 1
			if !b.prog {
				g = rng.Intn(2)
			}
			switch rng.Intn(6) {
			case 0:
				g++
			case 1:
				if g > 0 {
					g--
				}
			}
			c.doWake(b.id, g)
		case r < 93:
			var mids []*batchT
			for _, b := range c.batches {
				if b.hard == "mid" && !b.elapsed {
					mids = append(mids, b)
				}
			}
			if len(mids) > 0 {
				c.doElapse(mids[0])
			}
		case r < 96 && len(liveW) > 0:
			c.exitWorker(liveW[rng.Intn(len(liveW))], "ev.exit")
		case r < 97 && !c.holdQuit:
			c.doQuit()
		}
	}
	if !c.stopped && !c.hung {
		c.doQuit()
	}
	c.final()
	if c.hung {
		// leave the goroutines behind; make sure nothing stays parked on us
		select {
		case <-c.rk.quit:
		default:
			close(c.rk.quit)
		}
	}
	if c.skewed {
		t.Hit("case.discarded-timing-skew")
		t.line("#discard %d", idx)
		return false
	}
	t.line("#end %d", idx)
	return c.hung
}

// caseParams derives everything random about case idx from the seed alone, so
// that a restarted child continues with the same cases.
func caseParams(idx, n, mid int) (*rand.Rand, int, bool, int, *rand.Rand) {
	rng := tr.Rng(int64(12 + 7919*(idx+1)))
	steps, allowMid := 8+rng.Intn(40), idx%(n/(3*mid)+1) == 0
	churn := 0
	if idx%100 == 50 {
		// a few cases per run: well over a hundred distinct short-lived addresses
		churn = 130 + rng.Intn(220)
	}
	// every fourth case: reconnects that overtake the old connection's worker
	// (a PRNG stream of its own; the other cases stay as they were)
	var reconn *rand.Rand
	if idx%4 == 1 {
		reconn = tr.Rng(int64(500009 + 7919*(idx+1)))
	}
	return rng, steps, allowMid, churn, reconn
}

func sizes(thorough bool) (n, mid int) {
	budget := tr.EnvInt("VERIF_BUDGET", 1)
	n = 600 * budget
	mid = 24 * budget
	if thorough {
		n *= 40
		mid *= 8
	}
	if os.Getenv("VERIF_SEARCH") != "" {
		// the search pass after a broken tie: at most 3x the quick budget, so
		// that a failing quick run stays well under two minutes
		n, mid = 3*600, 3*24
	}
	return
}

// child runs cases DISP_FROM..DISP_TO-1 and writes them to DISP_OUT.
func child(_ *tr.W, thorough bool) {
	from, to := tr.EnvInt("DISP_FROM", 0), tr.EnvInt("DISP_TO", 0)
	f, err := os.Create(os.Getenv("DISP_OUT"))
	if err != nil {
		panic(err)
	}
	defer f.Close()
	o := &sink{f: f}
	n, mid := sizes(thorough)
	hung := 0
	for idx := from; idx < to; idx++ {
		rng, steps, allowMid, churn, reconn := caseParams(idx, n, mid)
		if runCase(o, idx, rng, steps, allowMid, churn, reconn) {
			// the dispatcher of that case is stuck for good (its goroutines are
			// left behind); a few of those settle the verdict
			if hung++; hung >= maxHungCases {
				o.line("#abort %d cases hung", hung)
				break
			}
		}
	}
}

// panicSite names the function in which a goroutine panicked: the first frame
// of the trace that follows the panic line which is neither the runtime's nor
// panic() itself, without its arguments.
func panicSite(lines []string) string {
	seen := false
	for _, l := range lines {
		if strings.HasPrefix(l, "goroutine ") {
			if seen {
				break
			}
			seen = true
			continue
		}
		if !seen || l == "" || strings.HasPrefix(l, "\t") || strings.HasPrefix(l, " ") {
			continue
		}
		if strings.HasPrefix(l, "panic(") || strings.HasPrefix(l, "runtime.") || strings.HasPrefix(l, "[signal") {
			continue
		}
		if i := strings.LastIndex(l, "("); i > 0 {
			l = l[:i]
		}
		return l
	}
	return ""
}

// Run is the driver entry point (parent): it re-executes this binary as
// "dispchild" and replays the child's lines into the trace; a child that dies
// becomes a `<event in flight> => PANIC …` observation of the running case.
func Run(t *tr.W, thorough bool) {
	// a HANG is never expected on a correct tree: stop after a handful
	tr.MaxHangs = 6
	n, _ := sizes(thorough)
	dir, err := os.MkdirTemp("", "dispdrv")
	if err != nil {
		panic(err)
	}
	defer os.RemoveAll(dir)
	crashes, silent, silentAt := 0, 0, -1
	for from := 0; from < n; {
		outPath := fmt.Sprintf("%s/child-%d.trace", dir, from)
		cmd := exec.Command(os.Args[0], "dispchild", outPath+".unused")
		cmd.Env = append(os.Environ(), "DISP_FROM="+strconv.Itoa(from), "DISP_TO="+strconv.Itoa(n), "DISP_OUT="+outPath)
		var stderr bytes.Buffer
		cmd.Stderr, cmd.Stdout = &stderr, &stderr
		if err := cmd.Start(); err != nil {
			panic(err)
		}
		done := make(chan error, 1)
		go func() { done <- cmd.Wait() }()
		var werr error
		killed := false
		limit := 5 * time.Minute
		if thorough {
			limit = 13 * time.Minute
		}
		select {
		case werr = <-done:
		case <-time.After(limit):
			cmd.Process.Kill()
			werr, killed = <-done, true
		}
		last, open, inflight := from-1, false, ""
		var buf []line
		if fh, err := os.Open(outPath); err == nil {
			sc := bufio.NewScanner(fh)
			sc.Buffer(make([]byte, 1<<20), 1<<26)
			for sc.Scan() {
				ln := sc.Text()
				switch {
				case strings.HasPrefix(ln, "case "):
					last, _ = strconv.Atoi(ln[5:])
					open, buf, inflight = true, nil, ""
				case strings.HasPrefix(ln, "L "):
					if i := strings.Index(ln, " => "); i >= 0 {
						buf = append(buf, line{ln[2:i], ln[i+4:]})
						if ln[2:i] == inflight {
							inflight = ""
						}
					}
				case strings.HasPrefix(ln, "B "):
					inflight = ln[2:]
				case strings.HasPrefix(ln, "#hit "):
					t.Hit(ln[5:])
				case strings.HasPrefix(ln, "#end "):
					t.Case("disp idx %d", last)
					for _, l := range buf {
						t.Op(l.op, l.obs)
					}
					open = false
				case strings.HasPrefix(ln, "#discard "):
					open = false
				case strings.HasPrefix(ln, "#abort"):
					t.Line("# child stopped: %s", ln[1:])
				}
			}
			fh.Close()
		}
		os.Remove(outPath + ".unused")
		if werr == nil && !killed {
			break
		}
		// Why did the child end?  A panic or a fatal error of the Go runtime
		// (concurrent map access, nil dereference, deadlock, out of memory)
		// always announces itself on stderr; a child that ends with neither
		// was terminated from outside or ran into a limit of the harness's
		// own environment (signal, OOM killer, a stray kill on a shared
		// machine).  That is not an observation of the code under test: the
		// cases are a function of the seed alone, so the case it was at is
		// simply run again in a fresh child, and only a second silent death
		// at the very same case is reported.
		msg, diag := "child process died", false
		errLines := strings.Split(stderr.String(), "\n")
		for i, l := range errLines {
			if strings.HasPrefix(l, "panic:") || strings.HasPrefix(l, "fatal error:") {
				msg, diag = strings.TrimSpace(l), true
				if fn := panicSite(errLines[i+1:]); fn != "" {
					msg += " [in " + fn + "]"
				}
				break
			}
		}
		diedAt := last + 1
		if open {
			diedAt = last
		}
		if !killed && !diag {
			silent++
			if silentAt != diedAt {
				silentAt = diedAt
				t.Line("# child process ended (%v) with no Go panic or fatal-error message at case index %d (event in flight: %q); "+
					"not an observation of the code under test, the case is run again", werr, diedAt, inflight)
				t.Hit("child.ended-silently-rerun")
				if silent >= 5 {
					// the environment keeps killing the child: this run cannot say anything
					t.Close()
					fmt.Fprintf(os.Stderr, "dispatcher driver: child process ended %d times without a diagnostic (last: %v); giving up\n", silent, werr)
					os.Exit(3)
				}
				from = diedAt
				continue
			}
			msg = fmt.Sprintf("child process died twice at this very case without a Go panic message (%v)", werr)
			t.Hit("child.ended-silently-twice")
		}
		crashes++
		if open {
			t.Case("disp idx %d", last)
			for _, l := range buf {
				t.Op(l.op, l.obs)
			}
		} else {
			t.Case("disp crash-between-cases")
		}
		if inflight == "" {
			inflight = "status"
		}
		if killed {
			t.Op(inflight, "HANG child process exceeded its time limit")
		} else {
			t.Op(inflight, "PANIC "+msg)
		}
		t.Hit("child.crash")
		from = last + 1
		if crashes >= 6 {
			t.Line("# giving up after %d crashes", crashes)
			break
		}
	}
	rankCases(t, thorough)
}

// rankCases drives the stock ranking (query.NewPeerRanking) on its own: a few
// long-lived addresses earn records through Reward / Punish / ResetRanking,
// bursts of AddPeer for addresses never seen before (peer churn; the work
// manager calls AddPeer for every peer that connects and is never told about
// a disconnect) come in between, Order is asked about the long-lived ones.
func rankCases(t *tr.W, thorough bool) {
	n := 16 * tr.EnvInt("VERIF_BUDGET", 1)
	if thorough {
		n *= 10
	}
	if os.Getenv("VERIF_SEARCH") != "" {
		n = 3 * 16
	}
	for i := 0; i < n; i++ {
		rng := tr.Rng(int64(9001 + 17*i))
		t.Case("rank")
		rk := query.NewPeerRanking()
		guard := func(op string, f func() string) {
			defer func() {
				if r := recover(); r != nil {
					t.Op(op, "PANIC in the ranking")
				}
			}()
			t.Op(op, f())
		}
		addr := func(p int) string { return fmt.Sprintf("p%d", p) }
		long := 2 + rng.Intn(4)
		fresh, distinct := 1000, map[int]bool{}
		call := func(name string, p int, f func(string)) {
			guard(fmt.Sprintf("%s %d", name, p), func() string { f(addr(p)); return "-" })
			t.Hit("rank." + name)
		}
		order := func(ps []int) {
			as := make([]string, len(ps))
			var in []string
			for k, p := range ps {
				as[k] = addr(p)
				in = append(in, strconv.Itoa(p))
			}
			guard("order "+strings.Join(in, " "), func() string {
				rk.Order(as)
				var out []string
				for _, a := range as {
					out = append(out, strconv.Itoa(addrID(a)))
				}
				return strings.Join(out, " ")
			})
			t.Hit("rank.order")
		}
		burst := func(k int) {
			if k <= 0 {
				return
			}
			guard(fmt.Sprintf("churn %d %d", fresh, k), func() string {
				for j := 0; j < k; j++ {
					rk.AddPeer(addr(fresh + j))
				}
				return "-"
			})
			fresh += k
			t.Hit("rank.churn-burst")
			if fresh-1000+len(distinct) > 128 {
				t.Hit("rank.churn-over-128-addresses")
			}
		}
		some := func() []int {
			ps := rng.Perm(long)
			k := 2 + rng.Intn(long-1)
			out := make([]int, 0, k+1)
			for _, p := range ps[:k] {
				out = append(out, p+1)
			}
			if rng.Intn(5) == 0 {
				// an address the ranking was never told about counts as default
				out = append(out, 900+rng.Intn(5))
				rng.Shuffle(len(out), func(a, b int) { out[a], out[b] = out[b], out[a] })
			}
			return out
		}
		step := func() {
			p := 1 + rng.Intn(long)
			switch r := rng.Intn(100); {
			case r < 12:
				distinct[p] = true
				call("add", p, rk.AddPeer)
			case r < 42:
				call("reward", p, rk.Reward)
			case r < 66:
				call("punish", p, rk.Punish)
			case r < 70:
				call("reset", p, rk.ResetRanking)
			case r < 78:
				burst(1 + rng.Intn(6))
			default:
				order(some())
			}
		}
		for p := 1; p <= long; p++ {
			if rng.Intn(6) != 0 {
				distinct[p] = true
				call("add", p, rk.AddPeer)
			}
		}
		for k, m := 0, 6+rng.Intn(14); k < m; k++ {
			step()
		}
		// the big burst: usually far beyond a hundred addresses, sometimes
		// right around 128 in total
		switch rng.Intn(4) {
		case 0:
			burst(128 - len(distinct) - (fresh - 1000) - 1 + rng.Intn(4))
		default:
			burst(130 + rng.Intn(400))
		}
		for k, m := 0, 8+rng.Intn(16); k < m; k++ {
			step()
		}
		all := rng.Perm(long)
		for k := range all {
			all[k]++
		}
		order(all)
	}
}
