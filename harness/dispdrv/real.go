package dispdrv

// Driver "dispreal": the REAL work manager with the REAL query.NewWorker
// (query/worker.go Run) over scripted peers, with tiny real timeouts.  The runs
// are not scheduled deterministically, so the Lean side only evaluates the
// property oracle on them (case kind `real`, no model DIFF):
//
//	a finished, cancelled or timed-out batch never blocks later batches or
//	shutdown: every later batch, submitted while all peers answer promptly,
//	gets exactly one verdict within its deadline, and Stop returns.
//
// Shape of a case: W peers; batch 1 ends by idle timeout / hard timeout /
// external cancel racing job pick-up / with a peer disconnecting mid-job,
// usually with more requests than workers so that jobs of the ended batch are
// still queued; then the peers turn responsive and one or two later batches
// are submitted; then Stop.

import (
	"fmt"
	"math/rand"
	"os"
	"strings"
	"sync"
	"sync/atomic"
	"time"

	"github.com/btcsuite/btcd/wire/v2"
	"github.com/lightninglabs/neutrino/query"
	"verifharness/tr"
)

func init() { tr.Register("dispreal", RunReal) }

const (
	noiseBurst   = 3000
	realDeadline = 1500 * time.Millisecond
	stopDeadline = 2500 * time.Millisecond
)

var (
	respFinal    = &wire.MsgTx{Version: 222}
	respProgress = &wire.MsgTx{Version: 111}
	respNoise    = &wire.MsgTx{Version: 333} // unsolicited: no handler takes it
)

type rpeer struct {
	addr  string
	mu    sync.Mutex
	mode  string // silent | final | progress | disc | final+noise
	noise atomic.Bool
	delay time.Duration
	sub   chan wire.Message
	quit  chan struct{}
	once  sync.Once
	stop  <-chan struct{}
	sent  atomic.Int64
}

func (p *rpeer) set(mode string, d time.Duration) {
	p.mu.Lock()
	p.mode, p.delay = mode, d
	p.mu.Unlock()
}

func (p *rpeer) send(m wire.Message) bool {
	select {
	case p.sub <- m:
		return true
	case <-p.quit:
	case <-p.stop:
	case <-time.After(3 * time.Second):
	}
	return false
}

func (p *rpeer) QueueMessageWithEncoding(wire.Message, chan<- struct{}, wire.MessageEncoding) {
	p.sent.Add(1)
	p.mu.Lock()
	mode, d := p.mode, p.delay
	p.mu.Unlock()
	go func() {
		if d > 0 {
			time.Sleep(d)
		}
		switch mode {
		case "final":
			p.send(respFinal)
		case "final+noise":
			// the answer, then (once) a burst of unsolicited messages: the
			// worker that has just delivered its result is kept busy in the
			// message arm of its idle select instead of sitting at its job
			// channel
			if p.send(respFinal) && p.noise.CompareAndSwap(false, true) {
				for i := 0; i < noiseBurst && p.send(respNoise); i++ {
				}
			}
		case "progress":
			if p.send(respProgress) {
				p.send(respFinal)
			}
		case "disc":
			p.once.Do(func() { close(p.quit) })
		}
	}()
}

func (p *rpeer) SubscribeRecvMsg() (<-chan wire.Message, func()) { return p.sub, func() {} }
func (p *rpeer) Addr() string                                    { return p.addr }
func (p *rpeer) OnDisconnect() <-chan struct{}                   { return p.quit }

type rbatch struct {
	n        int
	finished []atomic.Bool
	errChan  chan error
	got      []string
	t0       time.Time    // just before Query
	lastOK   atomic.Int64 // UnixNano of the last response a handler accepted as final
	pt       time.Duration
}

// gapObs: time between the last successful response (or submission) and now,
// and the ProgressTimeout, in µs.
func (b *rbatch) gapObs() string {
	from := b.t0
	if l := b.lastOK.Load(); l > from.UnixNano() {
		from = time.Unix(0, l)
	}
	return fmt.Sprintf("gap=%d pt=%d", time.Since(from).Microseconds(), b.pt.Microseconds())
}

// slowRanking is the stock ranking whose first Reward keeps the dispatcher
// busy until `until`: the dispatcher is then still handling a successful
// result when the batch's idle window, counted from submission, expires.
type slowRanking struct {
	query.PeerRanking
	until atomic.Int64
	once  sync.Once
}

func (r *slowRanking) Reward(p string) {
	r.once.Do(func() {
		if u := r.until.Load(); u > 0 {
			if d := time.Until(time.Unix(0, u)); d > 0 {
				time.Sleep(d)
			}
		}
	})
	r.PeerRanking.Reward(p)
}

type realRun struct {
	lines []line
	hits  []string
}

func (r *realRun) emit(op, obs string) { r.lines = append(r.lines, line{op, obs}) }
func (r *realRun) hit(k string)        { r.hits = append(r.hits, k) }

func mkBatch(n int) (*rbatch, []*query.Request) {
	b := &rbatch{n: n, finished: make([]atomic.Bool, n)}
	reqs := make([]*query.Request, n)
	for k := range reqs {
		k := k
		reqs[k] = &query.Request{
			Req: &wire.MsgGetData{},
			HandleResp: func(_, resp wire.Message, _ string) query.Progress {
				switch resp {
				case wire.Message(respFinal):
					b.finished[k].Store(true)
					b.lastOK.Store(time.Now().UnixNano())
					return query.Progress{Finished: true, Progressed: true}
				case wire.Message(respProgress):
					return query.Progress{Progressed: true}
				}
				return query.Progress{}
			},
		}
	}
	return b, reqs
}

func (b *rbatch) fin() int {
	c := 0
	for i := range b.finished {
		if b.finished[i].Load() {
			c++
		}
	}
	return c
}

// await waits for the batch's verdict.
func (b *rbatch) await(d time.Duration) string {
	select {
	case err := <-b.errChan:
		v := verdictName(err)
		b.got = append(b.got, v)
		return v
	case <-time.After(d):
		return "HANG"
	}
}

func realCase(rng *rand.Rand) *realRun {
	r := &realRun{}
	stopAll := make(chan struct{})
	defer close(stopAll)
	peerCh := make(chan query.Peer)
	ranking := &slowRanking{PeerRanking: query.NewPeerRanking()}
	wm := query.NewWorkManager(&query.Config{
		ConnectedPeers: func() (<-chan query.Peer, func(), error) { return peerCh, func() {}, nil },
		NewWorker:      query.NewWorker,
		Ranking:        ranking,
	})
	wm.Start()
	W := 1 + rng.Intn(3)
	var peers []*rpeer
	connectAs := func(addr, mode string, d time.Duration) *rpeer {
		p := &rpeer{addr: addr, mode: mode, delay: d,
			sub: make(chan wire.Message), quit: make(chan struct{}), stop: stopAll}
		select {
		case peerCh <- p:
			return p
		case <-time.After(realDeadline):
			return nil
		}
	}
	connect := func(mode string, d time.Duration) bool {
		p := connectAs(fmt.Sprintf("p%d", len(peers)+1), mode, d)
		if p == nil {
			return false
		}
		peers = append(peers, p)
		return true
	}
	submit := func(n int, opts ...query.QueryOption) *rbatch {
		b, reqs := mkBatch(n)
		done := make(chan struct{})
		b.t0 = time.Now()
		go func() { b.errChan = wm.Query(reqs, opts...); close(done) }()
		select {
		case <-done:
			return b
		case <-time.After(realDeadline):
			return nil
		}
	}
	kind := []string{"idle", "idle", "hard", "hard", "cancel", "disc", "failonly", "reconnect", "reconnect", "prograce", "prograce"}[rng.Intn(11)]
	n1 := W + 1 + rng.Intn(W+2)
	if rng.Intn(5) == 0 {
		n1 = 1 + rng.Intn(W)
	}
	var opts []query.QueryOption
	mode, delay := "silent", time.Duration(0)
	var cancel chan struct{}
	var pt time.Duration
	switch kind {
	case "idle":
		pt = time.Duration(15+rng.Intn(25)) * time.Millisecond
		opts = append(opts, query.ProgressTimeout(pt))
		if rng.Intn(2) == 0 {
			opts = append(opts, query.NoRetryMax())
		}
		if rng.Intn(3) == 0 {
			// one answer arrives first, re-arming the idle timer once
			mode, delay = "final", time.Duration(5+rng.Intn(10))*time.Millisecond
		}
	case "hard":
		opts = append(opts, query.Timeout(time.Duration(10+rng.Intn(15))*time.Millisecond))
		mode, delay = "final", time.Duration(35+rng.Intn(20))*time.Millisecond
		if rng.Intn(3) == 0 {
			mode = "progress"
		}
	case "cancel":
		cancel = make(chan struct{})
		opts = append(opts, query.Cancel(cancel))
		if rng.Intn(2) == 0 {
			mode, delay = "final", time.Duration(20+rng.Intn(20))*time.Millisecond
		}
	case "disc":
		mode, delay = "final", time.Duration(rng.Intn(3))*time.Millisecond
		if W == 1 {
			W = 2
		}
	case "prograce":
		// the idle window (counted from submission) expires while the
		// dispatcher is still handling the batch's first successful result;
		// the batch has made progress, the following answers arrive well
		// inside the new window
		pt = time.Duration(40+rng.Intn(20)) * time.Millisecond
		opts = append(opts, query.ProgressTimeout(pt))
		mode, delay = "final", pt/2
		W = 1
		n1 = 2 + rng.Intn(2)
	case "reconnect":
		// persistent peers: they go away while idle and come back under the
		// SAME address before the batch is handed in
		mode, delay = "final", time.Duration(rng.Intn(3))*time.Millisecond
		n1 = 1 + rng.Intn(3)
	case "failonly":
		// unlimited retries, a hard deadline, and peers that only ever fail
		// (each disconnects on its request, the later ones after the
		// deadline): the deadline must end the batch at the first result
		// processed after it
		opts = append(opts, query.NoRetryMax(), query.Timeout(time.Duration(15+rng.Intn(10))*time.Millisecond))
		mode = "disc"
		W = 3
		n1 = 1 + rng.Intn(2)
	}
	for i := 0; i < W; i++ {
		m := mode
		if kind == "disc" && i == 0 {
			m = "disc"
		}
		if kind == "idle" && mode == "final" && i > 0 {
			m = "silent"
		}
		if kind == "failonly" {
			// the best-ranked peers fail early, the last one well after the deadline
			delay = time.Duration(5+45*i) * time.Millisecond
		}
		if !connect(m, delay) {
			r.emit("rpeer", "HANG")
			return r
		}
	}
	if kind == "reconnect" {
		// all of them, or all but one, drop and reconnect
		keep := rng.Intn(2)
		for i := keep; i < len(peers); i++ {
			old := peers[i]
			old.once.Do(func() { close(old.quit) })
		}
		// give the idle workers time to return (they are pruned lazily)
		time.Sleep(time.Duration(5+rng.Intn(30)) * time.Millisecond)
		for i := keep; i < len(peers); i++ {
			np := connectAs(peers[i].addr, mode, delay)
			if np == nil {
				r.emit("rpeer", "HANG")
				return r
			}
			peers[i] = np
		}
		if keep == 0 {
			r.hit("real.reconnect-all")
		}
	}
	hdr := fmt.Sprintf("kind=%s W=%d n=%d", kind, W, n1)
	r.hit("real.kind-" + kind)
	if n1 > W {
		r.hit("real.jobs-left-queued")
	}
	if kind == "prograce" {
		ranking.until.Store(time.Now().Add(pt + 6*time.Millisecond).UnixNano())
	}
	b1 := submit(n1, opts...)
	if b1 == nil {
		r.emit("rbatch 1 "+hdr, "v=HANG fin=0/0")
		return r
	}
	if cancel != nil {
		// cancel racing the hand-out of the first jobs
		if d := rng.Intn(4); d > 0 {
			time.Sleep(time.Duration(d) * 300 * time.Microsecond)
		}
		close(cancel)
	}
	b1.pt = pt
	v1 := b1.await(realDeadline)
	r.emit("rbatch 1 "+hdr, fmt.Sprintf("v=%s fin=%d/%d %s", v1, b1.fin(), n1, b1.gapObs()))
	r.hit("real.first-verdict-" + v1)
	batches := []*rbatch{b1}

	// later batches: every peer answers promptly now
	for _, p := range peers {
		p.set("final", 0)
	}
	if kind == "disc" || kind == "failonly" || rng.Intn(4) == 0 {
		if !connect("final", 0) {
			r.emit("rpeer", "HANG")
			return r
		}
		r.hit("real.fresh-peer")
	}
	if rng.Intn(3) == 0 {
		// let the ended batch's leftovers drain first
		time.Sleep(time.Duration(rng.Intn(20)) * time.Millisecond)
	}
	nLater := 1 + rng.Intn(2)
	for i := 0; i < nLater; i++ {
		n := 1 + rng.Intn(4)
		var o []query.QueryOption
		how := "default"
		switch rng.Intn(4) {
		case 0:
			o, how = append(o, query.Timeout(400*time.Millisecond)), "hard400"
		case 1:
			o, how = append(o, query.NoRetryMax()), "noretrymax"
		}
		b := submit(n, o...)
		op := fmt.Sprintf("rbatch %d later opts=%s n=%d", i+2, how, n)
		if b == nil {
			r.emit(op, "v=HANG fin=0/0")
			break
		}
		batches = append(batches, b)
		v := b.await(realDeadline)
		r.emit(op, fmt.Sprintf("v=%s fin=%d/%d", v, b.fin(), n))
		r.hit("real.later-verdict-" + v)
	}
	// shutdown must not be blocked either
	stopped := make(chan struct{})
	go func() { wm.Stop(); close(stopped) }()
	select {
	case <-stopped:
		r.emit("rstop", "ok")
	case <-time.After(stopDeadline):
		r.emit("rstop", "HANG")
		return r
	}
	var ns []string
	for i, b := range batches {
		for {
			select {
			case err := <-b.errChan:
				b.got = append(b.got, verdictName(err))
				continue
			default:
			}
			break
		}
		ns = append(ns, fmt.Sprintf("%d:%d", i+1, len(b.got)))
	}
	r.emit("rfinal", "n=["+strings.Join(ns, " ")+"]")
	return r
}

// rankCase: "preferring peers with a better record" with the REAL worker.  A
// real worker that has just delivered a result is free by the dispatcher's
// bookkeeping before it is back at its job channel (here it is moreover kept
// busy discarding unsolicited messages).  Peer A has answered every request so
// far, peer B none and sits idle at its channel; batch Y is handed in the
// moment batch X's verdict (A's result) arrives.  A was free when Y was
// scheduled (its slot is cleared before the verdict is written), so Y's
// request is due to A: the dispatcher must wait for A rather than hand the
// request to B.  Which peer was asked is read off the peers' own request
// counters.
func rankCase(rng *rand.Rand) *realRun {
	r := &realRun{}
	stopAll := make(chan struct{})
	defer close(stopAll)
	peerCh := make(chan query.Peer)
	wm := query.NewWorkManager(&query.Config{
		ConnectedPeers: func() (<-chan query.Peer, func(), error) { return peerCh, func() {}, nil },
		NewWorker:      query.NewWorker,
		Ranking:        query.NewPeerRanking(),
	})
	wm.Start()
	connect := func(addr string) *rpeer {
		p := &rpeer{addr: addr, mode: "final", sub: make(chan wire.Message), quit: make(chan struct{}), stop: stopAll}
		select {
		case peerCh <- p:
			return p
		case <-time.After(realDeadline):
			return nil
		}
	}
	submit := func(n int) *rbatch {
		b, reqs := mkBatch(n)
		done := make(chan struct{})
		b.t0 = time.Now()
		go func() { b.errChan = wm.Query(reqs); close(done) }()
		select {
		case <-done:
			return b
		case <-time.After(realDeadline):
			return nil
		}
	}
	r.hit("real.kind-rankwait")
	a := connect("p1")
	if a == nil {
		r.emit("rpeer", "HANG")
		return r
	}
	okA := 0
	step := func(i int, n int, what string, pa, pb *rpeer) (*rbatch, bool) {
		var a0, b0 int64
		a0 = pa.sent.Load()
		if pb != nil {
			b0 = pb.sent.Load()
		}
		op := fmt.Sprintf("rbatch %d kind=rank-%s n=%d", i, what, n)
		b := submit(n)
		if b == nil {
			r.emit(op, "v=HANG fin=0/0")
			return nil, false
		}
		v := b.await(realDeadline)
		r.emit(op, fmt.Sprintf("v=%s fin=%d/%d", v, b.fin(), n))
		if v != errOK {
			return b, false
		}
		if pb != nil {
			da, db := pa.sent.Load()-a0, pb.sent.Load()-b0
			to := "none"
			switch {
			case da > 0 && db > 0:
				to = "both"
			case da > 0:
				to = "A"
			case db > 0:
				to = "B"
			}
			r.emit(fmt.Sprintf("rrank %s okA=%d okB=0", what, okA), "to="+to)
			r.hit("real.rank-" + what + "-to-" + to)
		}
		okA += n
		return b, true
	}
	var batches []*rbatch
	fin := func() {
		stopped := make(chan struct{})
		go func() { wm.Stop(); close(stopped) }()
		select {
		case <-stopped:
			r.emit("rstop", "ok")
		case <-time.After(stopDeadline):
			r.emit("rstop", "HANG")
			return
		}
		var ns []string
		for i, b := range batches {
			for {
				select {
				case err := <-b.errChan:
					b.got = append(b.got, verdictName(err))
					continue
				default:
				}
				break
			}
			ns = append(ns, fmt.Sprintf("%d:%d", i+1, len(b.got)))
		}
		r.emit("rfinal", "n=["+strings.Join(ns, " ")+"]")
	}
	// A earns its record alone
	b0, ok := step(1, 1+rng.Intn(4), "solo", a, nil)
	if b0 != nil {
		batches = append(batches, b0)
	}
	if !ok {
		fin()
		return r
	}
	b := connect("p2")
	if b == nil {
		r.emit("rpeer", "HANG")
		return r
	}
	// X: both idle at their channels, the better record gets it; A's answer is
	// followed by the burst
	a.set("final+noise", 0)
	bx, ok := step(2, 1, "idle", a, b)
	if bx != nil {
		batches = append(batches, bx)
	}
	if ok {
		// Y: A free by the bookkeeping, not yet receiving; B receiving
		by, _ := step(3, 1, "after-result", a, b)
		if by != nil {
			batches = append(batches, by)
		}
	}
	fin()
	return r
}

// RunReal runs the cases a few at a time (they mostly sleep on timers).
// realHangs counts HANG observations over all cases; no new case is started
// once a handful have been seen (each costs a deadline).
var realHangs atomic.Int64

func RunReal(t *tr.W, thorough bool) {
	tr.MaxHangs = 8
	n := 150 * tr.EnvInt("VERIF_BUDGET", 1)
	if thorough {
		n *= 10
	}
	if os.Getenv("VERIF_SEARCH") != "" {
		n = 3 * 150
	}
	// the last fifth of the cases are rank scenarios (cheap: no timer is involved)
	nRank := n / 5
	n += nRank
	const par = 6
	res := make([]*realRun, n)
	var wg sync.WaitGroup
	sem := make(chan struct{}, par)
	for i := 0; i < n; i++ {
		i := i
		rng := tr.Rng(int64(7001 + 31*i))
		wg.Add(1)
		sem <- struct{}{}
		go func() {
			defer wg.Done()
			defer func() { <-sem }()
			if realHangs.Load() >= 4 {
				return
			}
			if i >= n-nRank {
				res[i] = rankCase(rng)
			} else {
				res[i] = realCase(rng)
			}
			for _, l := range res[i].lines {
				if strings.Contains(l.obs, "HANG") {
					realHangs.Add(1)
				}
			}
		}()
	}
	wg.Wait()
	for _, r := range res {
		if r == nil {
			continue
		}
		t.Case("real")
		for _, l := range r.lines {
			t.Op(l.op, l.obs)
		}
		for _, h := range r.hits {
			t.Hit(h)
		}
	}
}
