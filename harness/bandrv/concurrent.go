package bandrv

// Concurrency of the ban store (C13: "a ban just issued is reported by every
// later query"): a Status call racing with a re-ban of the same network whose
// previous ban has lapsed but is still stored.
//
//   - interposeCase: deterministic.  The store is given a walletdb.DB wrapper
//     that counts the transactions a call opens; a re-ban of the queried network
//     is run right before the SECOND transaction of one Status call (if Status
//     is one transaction, as it should be, the re-ban runs right after it).
//   - raceCase: free-running goroutines: one polls Status, the other stores a
//     lapsed ban and at once re-bans for 24 h.
//
// Trace: `reban …` is a `ban` line (same fields) for a ban that committed while
// a Status of the same network was in flight; the lines are written in an order
// that is a valid linearisation (status, then reban) when every call is atomic.

import (
	"math/rand"
	"sync"
	"sync/atomic"
	"time"

	"github.com/btcsuite/btcwallet/walletdb"
)

type hookDB struct {
	walletdb.DB
	mu      sync.Mutex
	armed   bool
	n       int
	between func()
	fired   bool
}

// arm: the next call's second transaction (if any) is preceded by f.
func (h *hookDB) arm(f func()) {
	h.mu.Lock()
	h.armed, h.n, h.between, h.fired = true, 0, f, false
	h.mu.Unlock()
}

// disarm reports whether f ran.
func (h *hookDB) disarm() bool {
	h.mu.Lock()
	defer h.mu.Unlock()
	h.armed = false
	return h.fired
}

func (h *hookDB) enter() {
	var f func()
	h.mu.Lock()
	if h.armed {
		h.n++
		if h.n == 2 {
			f, h.armed, h.fired = h.between, false, true
		}
	}
	h.mu.Unlock()
	if f != nil {
		f()
	}
}

func (h *hookDB) View(f func(tx walletdb.ReadTx) error, reset func()) error {
	h.enter()
	return h.DB.View(f, reset)
}

func (h *hookDB) Update(f func(tx walletdb.ReadWriteTx) error, reset func()) error {
	h.enter()
	return h.DB.Update(f, reset)
}

func (h *hookDB) BeginReadTx() (walletdb.ReadTx, error) {
	h.enter()
	return h.DB.BeginReadTx()
}

func (h *hookDB) BeginReadWriteTx() (walletdb.ReadWriteTx, error) {
	h.enter()
	return h.DB.BeginReadWriteTx()
}

// interposeCase: lapsed record in the store; Status with a 24 h re-ban slipped
// between its transactions; the ban must be there afterwards, also after reopen.
func interposeCase(rng *rand.Rand, x *runner) {
	b := randBase(rng)
	x.ban(spell(rng, b), 3, []int64{-5000, -1500, -86400000}[rng.Intn(3)]) // lapsed by >= 1 s, never queried
	x.dump()
	reason := uint8(1 + rng.Intn(5))
	var op, obs string
	reban := func() { op, obs = x.banCall("reban", spell(rng, b), reason, 86400000) }
	x.w.hook.arm(reban)
	x.status(spell(rng, b))
	if x.w.hook.disarm() {
		x.r.hit("interpose.between-transactions")
	} else {
		reban()
		x.r.hit("interpose.after-single-transaction")
	}
	x.r.op(op, obs)
	x.status(spell(rng, b))
	x.dump()
	x.status(spell(rng, b))
	x.reopen()
	x.status(spell(rng, b))
	x.dump()
}

// raceCase: a poller calls Status for the network all the time (its calls are
// not written to the trace: on a lapsed record they at most delete it, which
// the next ban overwrites anyway; on a live 24 h ban they change nothing).  Per
// round: store a lapsed ban, re-ban for 24 h, let the poller finish two more
// calls, then a recorded Status must say banned; unban.
func raceCase(rng *rand.Rand, x *runner, rounds int) {
	b := randBase(rng)
	pollTg := spell(rng, b)
	n, err := pollTg.ipNet()
	if err != nil {
		return
	}
	var iters int64
	stop := make(chan struct{})
	var wg sync.WaitGroup
	store := x.w.store
	wg.Add(1)
	go func() {
		defer wg.Done()
		for {
			select {
			case <-stop:
				return
			default:
			}
			store.Status(n)
			atomic.AddInt64(&iters, 1)
		}
	}()
	for i := 0; i < rounds; i++ {
		x.ban(spell(rng, b), 1, -5000)
		op, obs := x.banCall("reban", spell(rng, b), uint8(2+i%4), 86400000)
		x.r.op(op, obs)
		at := atomic.LoadInt64(&iters)
		dl := time.Now().Add(200 * time.Millisecond)
		for atomic.LoadInt64(&iters) < at+2 && time.Now().Before(dl) {
			time.Sleep(100 * time.Microsecond)
		}
		if x.status(spell(rng, b)) == "notbanned" {
			x.r.hit("race.ban-lost")
			break // the states have diverged; one replay is enough
		}
		x.unban(spell(rng, b))
	}
	close(stop)
	wg.Wait()
	x.r.hit("race.rounds")
	x.dump()
}
