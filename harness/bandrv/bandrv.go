// Package bandrv drives the real banman.Store on a real bbolt database
// (walletdb "bdb" driver) in a temp dir: random histories of ban / status /
// unban / raw bucket dump / close-and-reopen over many textual spellings of a
// few addresses, custom masks and hand-built *net.IPNet values.  The real code
// reads time.Now() itself; the wall clock (ms) is read before and after every
// call and both readings go into the trace.  Output: line protocol (package tr),
// see lean/Driver/Drv/Ban.lean for the line formats.
package bandrv

import (
	"errors"
	"encoding/binary"
	"encoding/hex"
	"fmt"
	"math/rand"
	"net"
	"os"
	"path/filepath"
	"sort"
	"strings"
	"sync"
	"time"

	"github.com/btcsuite/btcwallet/walletdb"
	_ "github.com/btcsuite/btcwallet/walletdb/bdb"
	"github.com/lightninglabs/neutrino/banman"
	"verifharness/tr"
)

func init() { tr.Register("ban", Run) }

// ---------------------------------------------------------------- targets

type target struct {
	via      string     // "parse": banman.ParseIPNet(spelling, mask); "raw": &net.IPNet{IP: rawIP, Mask: mask}
	spelling string     // parse: the address text; raw: a description (comment only)
	mask     net.IPMask // parse: mask argument (may be nil); raw: IPNet.Mask
	rawIP    net.IP
}

func hexOr(b []byte, empty string) string {
	if len(b) == 0 {
		return empty
	}
	return hex.EncodeToString(b)
}

// words renders the target for the model: the bytes Go's net package parsed
// out of the text (the same two calls ParseIPNet makes), the mask, the port.
func (tg target) words() string {
	if tg.via == "raw" {
		return fmt.Sprintf("raw %s %s -", hexOr(tg.rawIP, "-"), hexOr(tg.mask, "-"))
	}
	host, port, err := net.SplitHostPort(tg.spelling)
	if err != nil {
		host, port = tg.spelling, "-"
	}
	if port == "" {
		port = "-"
	}
	m := "nil"
	if tg.mask != nil {
		m = hexOr(tg.mask, "-")
	}
	return fmt.Sprintf("parse %s %s %s", hexOr(net.ParseIP(host), "-"), m, port)
}

func (tg target) ipNet() (*net.IPNet, error) {
	if tg.via == "raw" {
		return &net.IPNet{IP: tg.rawIP, Mask: tg.mask}, nil
	}
	return banman.ParseIPNet(tg.spelling, tg.mask)
}

type base struct {
	ip  net.IP // 16-byte form
	is4 bool
}

func randBase(rng *rand.Rand) base {
	switch rng.Intn(10) {
	case 0, 1, 2, 3:
		return base{net.IPv4(byte(rng.Intn(256)), byte(rng.Intn(256)), byte(rng.Intn(256)), byte(rng.Intn(256))), true}
	case 4:
		return base{net.IPv4(0, 0, 0, 0), true}
	case 5:
		return base{net.IPv4(255, 255, 255, 255), true}
	case 6:
		return base{net.ParseIP("::1"), false}
	case 7:
		return base{net.ParseIP("::"), false}
	default:
		ip := make(net.IP, 16)
		rng.Read(ip)
		if rng.Intn(3) == 0 { // runs of zeros so that "::" compression matters
			for i := 2 + rng.Intn(4); i < 10+rng.Intn(5); i++ {
				ip[i] = 0
			}
		}
		if ip.To4() != nil {
			ip[0] = 0x20
		}
		return base{ip, false}
	}
}

// sibling returns an address in the same /24 (v4) or /64 (v6) as b.
func sibling(rng *rand.Rand, b base) base {
	ip := append(net.IP(nil), b.ip...)
	ip[15] = byte(rng.Intn(256))
	if !b.is4 {
		ip[9] ^= byte(1 + rng.Intn(255))
	}
	return base{ip, b.is4}
}

// spell returns one of the spellings of b that denote the same address with
// the default mask.
func spell(rng *rand.Rand, b base) target {
	port := []string{"8333", "18333", "0", "65535", "1"}[rng.Intn(5)]
	if b.is4 {
		q := b.ip.To4()
		dotted := fmt.Sprintf("%d.%d.%d.%d", q[0], q[1], q[2], q[3])
		switch rng.Intn(10) {
		case 0:
			return target{via: "parse", spelling: dotted}
		case 1:
			return target{via: "parse", spelling: dotted + ":" + port}
		case 2:
			return target{via: "parse", spelling: "::ffff:" + dotted}
		case 3:
			return target{via: "parse", spelling: "[::ffff:" + dotted + "]:" + port}
		case 4:
			return target{via: "parse", spelling: fmt.Sprintf("::ffff:%02x%02x:%02x%02x", q[0], q[1], q[2], q[3])}
		case 5:
			return target{via: "parse", spelling: fmt.Sprintf("0:0:0:0:0:ffff:%x:%x", int(q[0])<<8|int(q[1]), int(q[2])<<8|int(q[3]))}
		case 6:
			return target{via: "parse", spelling: fmt.Sprintf("[0000:0000:0000:0000:0000:FFFF:%02X%02X:%02X%02X]:%s", q[0], q[1], q[2], q[3], port)}
		case 7:
			return target{via: "raw", spelling: "IPNet{4-byte " + dotted + ", /32 of 32}", rawIP: append(net.IP(nil), q...), mask: net.CIDRMask(32, 32)}
		case 8:
			return target{via: "raw", spelling: "IPNet{16-byte ::ffff:" + dotted + ", /32 of 32}", rawIP: append(net.IP(nil), b.ip...), mask: net.CIDRMask(32, 32)}
		default:
			return target{via: "parse", spelling: dotted, mask: net.CIDRMask(32, 32)}
		}
	}
	g := make([]int, 8)
	for i := range g {
		g[i] = int(b.ip[2*i])<<8 | int(b.ip[2*i+1])
	}
	full := fmt.Sprintf("%04x:%04x:%04x:%04x:%04x:%04x:%04x:%04x", g[0], g[1], g[2], g[3], g[4], g[5], g[6], g[7])
	switch rng.Intn(8) {
	case 0:
		return target{via: "parse", spelling: b.ip.String()}
	case 1:
		return target{via: "parse", spelling: "[" + b.ip.String() + "]:" + port}
	case 2:
		return target{via: "parse", spelling: full}
	case 3:
		return target{via: "parse", spelling: strings.ToUpper(full)}
	case 4:
		return target{via: "parse", spelling: fmt.Sprintf("%x:%x:%x:%x:%x:%x:%x:%x", g[0], g[1], g[2], g[3], g[4], g[5], g[6], g[7])}
	case 5:
		return target{via: "parse", spelling: "[" + full + "]:" + port}
	case 6:
		return target{via: "raw", spelling: "IPNet{16-byte " + b.ip.String() + ", /128 of 128}", rawIP: append(net.IP(nil), b.ip...), mask: net.CIDRMask(128, 128)}
	default:
		return target{via: "parse", spelling: b.ip.String(), mask: net.CIDRMask(128, 128)}
	}
}

// masked returns b with a non-default mask (or an odd hand-built IPNet).
func masked(rng *rand.Rand, b base) target {
	tg := spell(rng, b)
	for tg.via != "parse" {
		tg = spell(rng, b)
	}
	var ms []net.IPMask
	if b.is4 {
		ms = []net.IPMask{net.CIDRMask(8, 32), net.CIDRMask(24, 32), net.CIDRMask(24, 32), net.CIDRMask(0, 32),
			net.CIDRMask(128, 128), net.CIDRMask(120, 128), net.CIDRMask(96, 128), net.CIDRMask(8, 128),
			{255, 0, 255, 0}, {}}
	} else {
		ms = []net.IPMask{net.CIDRMask(64, 128), net.CIDRMask(64, 128), net.CIDRMask(120, 128), net.CIDRMask(0, 128),
			net.CIDRMask(24, 32), net.CIDRMask(32, 32), {}}
	}
	tg.mask = ms[rng.Intn(len(ms))]
	if rng.Intn(6) == 0 { // hand-built nets the client never produces: unmasked IP, odd lengths
		q := b.ip
		if b.is4 && rng.Intn(2) == 0 {
			q = b.ip.To4()
		}
		switch rng.Intn(4) {
		case 0:
			return target{via: "raw", spelling: "IPNet{unmasked}", rawIP: append(net.IP(nil), q...), mask: tg.mask}
		case 1:
			return target{via: "raw", spelling: "IPNet{5-byte IP}", rawIP: net.IP{1, 2, 3, 4, 5}, mask: net.CIDRMask(32, 32)}
		case 2:
			return target{via: "raw", spelling: "IPNet{nil IP}", rawIP: nil, mask: net.CIDRMask(32, 32)}
		default:
			return target{via: "raw", spelling: "IPNet{nil mask}", rawIP: append(net.IP(nil), q...), mask: nil}
		}
	}
	return tg
}

var badSpellings = []string{"", "not-an-ip", "[::1]", "1.2.3", "fe80::1%eth0", "1.2.3.4:80:90", "01.2.3.4",
	"1.2.3.4.5", "::ffff:1.2.3", "example.com:8333", "12345::1", ":8333"}

// ---------------------------------------------------------------- world

type world struct {
	dir   string
	path  string
	db    walletdb.DB // the raw database (dumps read it directly)
	hook  *hookDB     // what the store is given: the same database, transactions observable (concurrent.go)
	store banman.Store
}

func newWorld() (*world, error) {
	dir, err := os.MkdirTemp("", "bandrv")
	if err != nil {
		return nil, err
	}
	w := &world{dir: dir, path: filepath.Join(dir, "ban.db")}
	w.db, err = walletdb.Create("bdb", w.path, true, 10*time.Second, false)
	if err != nil {
		return nil, err
	}
	w.hook = &hookDB{DB: w.db}
	w.store, err = banman.NewStore(w.hook)
	return w, err
}

func (w *world) reopen() string {
	if err := w.db.Close(); err != nil {
		return "err:close"
	}
	db, err := walletdb.Open("bdb", w.path, true, 10*time.Second, false)
	if err != nil {
		return "err:open"
	}
	w.db = db
	w.hook = &hookDB{DB: db}
	w.store, err = banman.NewStore(w.hook)
	if err != nil {
		return "err:newstore"
	}
	return "ok"
}

func (w *world) close() {
	w.db.Close()
	os.RemoveAll(w.dir)
}

// Errors are classified WITHOUT reading their message text (a reworded message
// must not change the trace): by identity where the code offers one, else by
// the situation the harness itself created.

// parseErrWord: an error of banman.ParseIPNet.
func parseErrWord(err error) string {
	if errors.Is(err, banman.ErrUnsupportedIP) {
		return "errparse"
	}
	return "errparse-other" // ParseIPNet has no other error: unparsable for the Lean driver, hence reported
}

// storeErrWord: an error of a store call on the net n.  The store wraps the
// encoder's ErrUnsupportedIP without %w, so there is no identity to test; what
// is known is the input: an IP that has neither a 4- nor a 16-byte form cannot
// be encoded.  Any error on an encodable net is "errstore" (never expected).
func storeErrWord(n *net.IPNet, err error) string {
	if errors.Is(err, banman.ErrCorruptedStore) {
		return "errcorrupted"
	}
	if n.IP.To4() == nil && n.IP.To16() == nil {
		return "errencode"
	}
	return "errstore"
}

// guarded runs f with a watchdog and a recover.
func guarded(f func() string) string {
	ch := make(chan string, 1)
	go func() {
		defer func() {
			if r := recover(); r != nil {
				ch <- "PANIC"
			}
		}()
		ch <- f()
	}()
	select {
	case s := <-ch:
		return s
	case <-time.After(20 * time.Second):
		return "HANG"
	}
}

func nowMs() int64 { return time.Now().UnixMilli() }

func (w *world) dumpRaw() (string, []int64) {
	var items []string
	var exps []int64
	bad := ""
	err := walletdb.View(w.db, func(tx walletdb.ReadTx) error {
		top := tx.ReadBucket([]byte("ban-store"))
		if top == nil {
			bad = "!no-top-bucket"
			return nil
		}
		bi, ri := top.NestedReadBucket([]byte("ban-index")), top.NestedReadBucket([]byte("reason-index"))
		if bi == nil || ri == nil {
			bad = "!no-index-bucket"
			return nil
		}
		n := 0
		if err := bi.ForEach(func(k, v []byte) error {
			r := ri.Get(k)
			if len(v) != 8 || len(r) != 1 {
				bad = "!malformed-record-" + hex.EncodeToString(k)
				return nil
			}
			e := int64(binary.BigEndian.Uint64(v))
			exps = append(exps, e)
			items = append(items, fmt.Sprintf("%s:%d:%d", hex.EncodeToString(k), e, r[0]))
			n++
			return nil
		}); err != nil {
			return err
		}
		m := 0
		ri.ForEach(func(k, v []byte) error { m++; return nil })
		if m != n {
			bad = fmt.Sprintf("!ban-index-has-%d-keys-reason-index-%d", n, m)
		}
		return nil
	})
	if err != nil {
		return "!view-failed", nil
	}
	if bad != "" {
		return bad, nil
	}
	sort.Strings(items)
	return "[" + strings.Join(items, " ") + "]", exps
}

// ---------------------------------------------------------------- one case

type rec struct {
	lines []string
	hits  map[string]int
	ops   int
}

func (r *rec) hit(k string)           { r.hits[k]++ }
func (r *rec) line(f string, a ...any) { r.lines = append(r.lines, fmt.Sprintf(f, a...)) }
func (r *rec) op(op, obs string)       { r.ops++; r.lines = append(r.lines, op+" => "+obs) }

type runner struct {
	w *world
	r *rec
}

func (x *runner) comment(tg target) { x.r.line("# %s %q mask=%v", tg.via, tg.spelling, tg.mask) }

func (x *runner) ban(tg target, reason uint8, durMs int64) string {
	x.comment(tg)
	op, obs := x.banCall("ban", tg, reason, durMs)
	x.r.op(op, obs)
	return obs
}

// banCall performs the ban and returns its trace line without writing it.
func (x *runner) banCall(word string, tg target, reason uint8, durMs int64) (string, string) {
	var t0, t1 int64
	obs := guarded(func() string {
		t0 = nowMs()
		defer func() { t1 = nowMs() }()
		n, err := tg.ipNet()
		if err != nil {
			return parseErrWord(err)
		}
		if err := x.w.store.BanIPNet(n, banman.Reason(reason), time.Duration(durMs)*time.Millisecond); err != nil {
			return storeErrWord(n, err)
		}
		return "ok"
	})
	if (t0+durMs)/1000 != (t1+durMs)/1000 {
		x.r.hit("straddle")
		x.r.hit("straddle.ban")
	}
	x.r.hit("ban." + strings.SplitN(obs, ":", 2)[0])
	switch {
	case durMs < 0:
		x.r.hit("dur.negative")
	case durMs == 0:
		x.r.hit("dur.zero")
	case durMs < 1000:
		x.r.hit("dur.subsecond")
	case durMs <= 5000:
		x.r.hit("dur.seconds")
	case durMs <= 86400000:
		x.r.hit("dur.24h")
	default:
		x.r.hit("dur.years")
	}
	return fmt.Sprintf("%s %s %d %d %d %d", word, tg.words(), reason, durMs, t0, t1), obs
}

func (x *runner) status(tg target) string {
	x.comment(tg)
	_, exps := x.w.dumpRaw()
	var t0, t1 int64
	obs := guarded(func() string {
		t0 = nowMs()
		defer func() { t1 = nowMs() }()
		n, err := tg.ipNet()
		if err != nil {
			return parseErrWord(err)
		}
		st, err := x.w.store.Status(n)
		if err != nil {
			return storeErrWord(n, err)
		}
		if st.Banned {
			return fmt.Sprintf("banned %d %d", uint8(st.Reason), st.Expiration.Unix())
		}
		if st.Reason != 0 || !st.Expiration.IsZero() {
			return "notbanned-but-nonzero-status"
		}
		return "notbanned"
	})
	for _, e := range exps {
		if t0 < e*1000 && e*1000 <= t1 {
			x.r.hit("straddle")
			x.r.hit("straddle.status")
			break
		}
	}
	x.r.hit("status." + strings.Fields(obs)[0])
	x.r.op(fmt.Sprintf("status %s %d %d", tg.words(), t0, t1), obs)
	return obs
}

func (x *runner) unban(tg target) {
	x.comment(tg)
	var t0, t1 int64
	obs := guarded(func() string {
		t0 = nowMs()
		defer func() { t1 = nowMs() }()
		n, err := tg.ipNet()
		if err != nil {
			return parseErrWord(err)
		}
		if err := x.w.store.UnbanIPNet(n); err != nil {
			return storeErrWord(n, err)
		}
		return "ok"
	})
	x.r.hit("unban." + strings.SplitN(obs, ":", 2)[0])
	x.r.op(fmt.Sprintf("unban %s %d %d", tg.words(), t0, t1), obs)
}

func (x *runner) dump() {
	s, _ := x.w.dumpRaw()
	x.r.hit("dump")
	x.r.op("dump", s)
}

func (x *runner) reopen() {
	x.r.hit("reopen")
	x.r.op("reopen", guarded(x.w.reopen))
}

func (x *runner) sleep(ms int64) {
	x.r.line("# sleep %d ms", ms)
	time.Sleep(time.Duration(ms) * time.Millisecond)
}

// sleepUntil sleeps until the wall clock reads at least ms.
//
// No wait of this driver may scale with a value read back from the code under
// test or with a ban duration: whatever the target, at most maxSleepMs are
// slept (a target further away is a bug of the scenario or of the store; the
// trace says so and the case goes on, its observations judged as they come).
func (x *runner) sleepUntil(ms int64) {
	d := ms - nowMs()
	if d > maxSleepMs {
		x.r.line("# sleep target %d ms away: capped at %d ms", d, maxSleepMs)
		x.r.hit("sleep.capped")
		d = maxSleepMs
	}
	if d > 0 {
		x.sleep(d)
	}
}

const maxSleepMs = 3000

// Very long bans: ten years, a century, beyond April 2262 (where Unix nanoseconds no longer fit 63 bits: 236 and
// 250 years from now) and the longest whole-millisecond time.Duration (~292 years).
var longDurations = []int64{315576000000, 3155760000000, 7447593600000, 7889400000000, 9223372036854}

var durations = []int64{0, 0, -1, -5000, 1, 250, 700, 999, 1000, 1300, 2000, 86400000, 86400000, 86400000}

func pickTarget(rng *rand.Rand, bases []base) target {
	b := bases[rng.Intn(len(bases))]
	switch p := rng.Intn(100); {
	case p < 72:
		return spell(rng, b)
	case p < 92:
		return masked(rng, b)
	default:
		tg := target{via: "parse", spelling: badSpellings[rng.Intn(len(badSpellings))]}
		if rng.Intn(4) == 0 {
			tg.mask = net.CIDRMask(24, 32)
		}
		return tg
	}
}

// randomCase: a random history over 2-4 addresses (two of them in one /24 or /64).
func randomCase(rng *rand.Rand, x *runner, nops int) {
	bases := []base{randBase(rng)}
	bases = append(bases, sibling(rng, bases[0]))
	for i := rng.Intn(3); i > 0; i-- {
		bases = append(bases, randBase(rng))
	}
	slept := int64(0)
	for i := 0; i < nops; i++ {
		switch p := rng.Intn(100); {
		case p < 30:
			d := durations[rng.Intn(len(durations))]
			if rng.Intn(4) == 0 {
				d = int64(rng.Intn(1800))
			} else if rng.Intn(12) == 0 {
				d = longDurations[rng.Intn(len(longDurations))]
			}
			x.ban(pickTarget(rng, bases), []uint8{0, 1, 2, 3, 4, 5, 255}[rng.Intn(7)], d)
		case p < 70:
			x.status(pickTarget(rng, bases))
		case p < 78:
			x.unban(pickTarget(rng, bases))
		case p < 86:
			x.dump()
		case p < 92:
			x.reopen()
		default:
			if slept < 1500 {
				d := int64(5 + rng.Intn(400))
				slept += d
				x.sleep(d)
			}
		}
	}
	x.dump()
}

// spellingsCase: ban through one spelling, query through many others, reopen, unban through yet another.
func spellingsCase(rng *rand.Rand, x *runner) {
	b := randBase(rng)
	x.ban(spell(rng, b), uint8(1+rng.Intn(5)), 86400000)
	for i := 0; i < 8; i++ {
		x.status(spell(rng, b))
	}
	x.dump()
	x.reopen()
	for i := 0; i < 4; i++ {
		x.status(spell(rng, b))
	}
	x.unban(spell(rng, b))
	for i := 0; i < 4; i++ {
		x.status(spell(rng, b))
	}
	x.dump()
}

// lapseCase: a short ban observed before and after it lapses, across a reopen.
func lapseCase(rng *rand.Rand, x *runner) {
	b := randBase(rng)
	d := int64(1000 + rng.Intn(1200))
	x.ban(spell(rng, b), 3, d)
	t := nowMs()
	x.status(spell(rng, b))
	if rng.Intn(2) == 0 {
		x.reopen()
	}
	x.dump()
	x.sleepUntil(t + d + 20)
	x.dump()
	if rng.Intn(2) == 0 {
		x.reopen()
	}
	x.status(spell(rng, b))
	x.dump()
	x.status(spell(rng, b))
}

// longCase: bans for years and centuries are reported (with their reason and
// expiry) now, after a re-ban with another long duration, and after reopening.
func longCase(rng *rand.Rand, x *runner) {
	for _, d := range longDurations {
		b := randBase(rng)
		x.ban(spell(rng, b), uint8(1+rng.Intn(5)), d)
		x.status(spell(rng, b))
		x.status(spell(rng, b))
	}
	x.dump()
	x.reopen()
	b := randBase(rng)
	for _, d := range longDurations {
		x.ban(spell(rng, b), 4, d)
		x.status(spell(rng, b))
	}
	x.dump()
}

// truncationProbe exhibits F15: banTime+duration has fractional part ~0.6 s and
// the status query comes right after the whole second below it.
func truncationProbe(rng *rand.Rand, x *runner) {
	b := randBase(rng)
	if f := nowMs() % 1000; f > 400 {
		x.sleep(1000 - f + 20) // start early in a second so that the query below needs no long wait
	}
	n := nowMs()
	d := 1600 - n%1000 // (n+d) % 1000 == 600, d in (1200, 1600]
	x.ban(spell(rng, b), 2, d)
	x.sleepUntil((n+d)/1000*1000 + 30)
	x.status(spell(rng, b))
	x.dump()
}

// straddleCase aims calls at second boundaries so that some clock windows
// contain one: a burst of bans across a whole second (the stored expiry may be
// either second), then a burst of status queries across the expiry second (either
// answer is right inside such a window; the Lean driver keeps both candidates).
func straddleCase(rng *rand.Rand, x *runner) {
	b := randBase(rng)
	if f := nowMs() % 1000; f < 990 {
		x.sleep(994 - f)
	}
	for i := 0; i < 12; i++ {
		x.ban(spell(rng, b), 1, 5000)
	}
	x.dump()
	x.ban(spell(rng, b), 2, 1500)
	_, exps := x.w.dumpRaw()
	if len(exps) != 1 {
		return
	}
	if at := exps[0]*1000 - 6 - nowMs(); exps[0] > 1<<40 || at < -1000 || at > maxSleepMs {
		// the stored value is not the expiry second this scenario asked for: nothing to aim at (the dump and
		// status lines already in the trace are judged by the model)
		x.r.hit("straddle.no-target")
		return
	}
	x.sleepUntil(exps[0]*1000 - 6)
	for i := 0; i < 14; i++ {
		x.status(spell(rng, b))
	}
	x.dump()
}

// ---------------------------------------------------------------- entry

func Run(t *tr.W, thorough bool) {
	mult := tr.EnvInt("VERIF_BUDGET", 1)
	nRandom, nOps := 64*mult, 36
	nSpell, nLapse, nProbe, nStraddle := 12*mult, 6*mult, 3, 6
	nInterpose, nRace, raceRounds := 6, 2, 120*mult
	if thorough {
		nRandom, nOps, nSpell, nLapse, nProbe = 600*mult, 60, 100*mult, 60*mult, 10
		nInterpose, nRace, raceRounds = 40, 8, 400*mult
	}
	if os.Getenv("VERIF_SEARCH") == "1" {
		// bin/check is looking for a failing input after a broken tie: 3x the quick tier, whatever budget and
		// tier it passes (cases sleep: the pass is bound by wall clock, not by operations)
		nRandom, nOps, nSpell, nLapse, nProbe = 3*64, 36, 3*12, 3*6, 3
		nInterpose, nRace, raceRounds = 6, 2, 120
	}
	type job struct {
		kind string
		seed int64
	}
	var jobs []job
	for i := 0; i < nProbe; i++ {
		jobs = append(jobs, job{"probe", int64(i)})
	}
	for i := 0; i < nStraddle; i++ {
		jobs = append(jobs, job{"straddle", int64(i)})
	}
	for i := 0; i < nInterpose; i++ {
		jobs = append(jobs, job{"interpose", int64(i)})
	}
	for i := 0; i < 2; i++ {
		jobs = append(jobs, job{"long", int64(i)})
	}
	for i := 0; i < nRace; i++ {
		jobs = append(jobs, job{"race", int64(i)})
	}
	for i := 0; i < nSpell; i++ {
		jobs = append(jobs, job{"spellings", int64(i)})
	}
	for i := 0; i < nLapse; i++ {
		jobs = append(jobs, job{"lapse", int64(i)})
	}
	for i := 0; i < nRandom; i++ {
		jobs = append(jobs, job{"random", int64(i)})
	}
	results := make([]*rec, len(jobs))
	var wg sync.WaitGroup
	sem := make(chan struct{}, 8)
	for i, j := range jobs {
		wg.Add(1)
		sem <- struct{}{}
		go func(i int, j job) {
			defer wg.Done()
			defer func() { <-sem }()
			r := &rec{hits: map[string]int{}}
			results[i] = r
			salt := int64(1300000) + map[string]int64{"probe": 1, "spellings": 2, "lapse": 3, "random": 4, "straddle": 5, "interpose": 6, "race": 7, "long": 8}[j.kind]*100000 + j.seed
			rng := tr.Rng(salt)
			w, err := newWorld()
			if err != nil {
				r.op("open", "err:open")
				return
			}
			defer w.close()
			x := &runner{w: w, r: r}
			switch j.kind {
			case "probe":
				truncationProbe(rng, x)
			case "spellings":
				spellingsCase(rng, x)
			case "lapse":
				lapseCase(rng, x)
			case "straddle":
				straddleCase(rng, x)
			case "interpose":
				interposeCase(rng, x)
			case "long":
				longCase(rng, x)
			case "race":
				raceCase(rng, x, raceRounds)
			default:
				randomCase(rng, x, nOps)
			}
		}(i, j)
	}
	wg.Wait()
	for i, r := range results {
		t.Case("%s %d", jobs[i].kind, jobs[i].seed)
		t.Hit("case." + jobs[i].kind)
		for _, l := range r.lines {
			t.Line("%s", l)
		}
		t.Ops += r.ops
		for k, v := range r.hits {
			t.Stats[k] += v
		}
	}
}
