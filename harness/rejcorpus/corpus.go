// Package rejcorpus is a hand-written corpus of the reject messages btcd and
// bitcoind send for a transaction, each labelled with its ground-truth class in
// the vocabulary of property C15 (NOT derived from pushtx.ParseBroadcastError):
//
//	mempool    the peer already has the transaction in its mempool
//	confirmed  the peer says the transaction is already in the chain
//	invalid    the peer calls the transaction invalid (consensus or policy failure,
//	           conflict with an unconfirmed transaction)
//	fee        the fee is too low
//	other      anything else (orphan, dust, malformed, obsolete, checkpoint, ...)
//
// Reasons carry the placeholders %TX% (id of the rejected transaction), %TX2%
// (another transaction id) and %OUT% (an outpoint), as the real messages do.
package rejcorpus

import (
	"encoding/hex"
	"fmt"
	"math/rand"
	"strings"

	"github.com/btcsuite/btcd/wire/v2"
)

type Entry struct {
	Class  string
	Node   string // btcd | bitcoind
	Code   wire.RejectCode
	Reason string
}

var Corpus = []Entry{
	// ---- already in the peer's mempool
	{"mempool", "btcd", wire.RejectDuplicate, "already have transaction %TX%"},
	{"mempool", "btcd", wire.RejectDuplicate, "already have transaction in mempool %TX%"},
	{"mempool", "bitcoind", wire.RejectDuplicate, "txn-already-in-mempool"},
	// ---- already in the chain
	{"confirmed", "btcd", wire.RejectDuplicate, "transaction already exists"},
	{"confirmed", "btcd", wire.RejectDuplicate, "transaction already exists in blockchain"},
	{"confirmed", "bitcoind", wire.RejectDuplicate, "txn-already-known"},
	// ---- invalid: double spend of an unconfirmed transaction
	{"invalid", "btcd", wire.RejectDuplicate, "output %OUT% already spent by transaction %TX2% in the memory pool"},
	{"invalid", "btcd", wire.RejectDuplicate, "output already spent in mempool: output=%OUT%, tx=%TX2%"},
	{"invalid", "bitcoind", wire.RejectDuplicate, "txn-mempool-conflict"},
	// ---- invalid: consensus / script / inputs
	{"invalid", "bitcoind", wire.RejectInvalid, "bad-txns-inputs-missingorspent"},
	{"invalid", "bitcoind", wire.RejectInvalid, "mandatory-script-verify-flag-failed (Signature must be zero for failed CHECK(MULTI)SIG operation)"},
	{"invalid", "bitcoind", wire.RejectInvalid, "bad-txns-in-belowout"},
	{"invalid", "btcd", wire.RejectInvalid, "transaction %TX% has no inputs"},
	{"invalid", "btcd", wire.RejectInvalid, "failed to validate input %OUT% which references output %OUT% - signature not empty on failed checksig"},
	{"invalid", "btcd", wire.RejectInvalid, "total value of all transaction inputs for transaction %TX% is 1000 which is less than the amount spent of 2000"},
	// ---- invalid by policy (non-standard)
	{"invalid", "bitcoind", wire.RejectNonstandard, "non-mandatory-script-verify-flag (Witness program hash mismatch)"},
	{"invalid", "bitcoind", wire.RejectNonstandard, "too-long-mempool-chain"},
	{"invalid", "bitcoind", wire.RejectNonstandard, "non-final"},
	{"invalid", "bitcoind", wire.RejectNonstandard, "scriptpubkey"},
	{"invalid", "btcd", wire.RejectNonstandard, "transaction %TX% is not standard: transaction version 9 is not in the valid range of 1-2"},
	{"invalid", "btcd", wire.RejectNonstandard, "transaction %TX% is not finalized"},
	// ---- fee too low
	{"fee", "bitcoind", wire.RejectInsufficientFee, "insufficient fee"},
	{"fee", "bitcoind", wire.RejectInsufficientFee, "min relay fee not met"},
	{"fee", "bitcoind", wire.RejectInsufficientFee, "mempool min fee not met"},
	{"fee", "bitcoind", wire.RejectInsufficientFee, "insufficient fee, rejecting replacement %TX%; new feerate 0.00001000 BTC/kB <= old feerate 0.00002000 BTC/kB"},
	{"fee", "btcd", wire.RejectInsufficientFee, "transaction %TX% has 100 fees which is under the required amount of 1000"},
	// ---- other
	{"other", "btcd", wire.RejectDuplicate, "orphan transaction %TX% references outputs of unknown or fully-spent transaction %TX2%"},
	{"other", "bitcoind", wire.RejectDust, "dust"},
	{"other", "bitcoind", wire.RejectMalformed, "error parsing message"},
	{"other", "bitcoind", wire.RejectObsolete, "Version must be 70002 or greater"},
	{"other", "btcd", wire.RejectDuplicate, "transaction %TX% is an orphan"},
}

func OfClass(class string) []Entry {
	var out []Entry
	for _, e := range Corpus {
		if e.Class == class {
			out = append(out, e)
		}
	}
	return out
}

func randHex(r *rand.Rand) string {
	var b [32]byte
	r.Read(b[:])
	return hex.EncodeToString(b[:])
}

// Render fills the placeholders; txid is the id of the rejected transaction.
func Render(e Entry, r *rand.Rand, txid string) string {
	s := strings.ReplaceAll(e.Reason, "%TX%", txid)
	for strings.Contains(s, "%TX2%") {
		s = strings.Replace(s, "%TX2%", randHex(r), 1)
	}
	for strings.Contains(s, "%OUT%") {
		s = strings.Replace(s, "%OUT%", fmt.Sprintf("%s:%d", randHex(r), r.Intn(4)), 1)
	}
	return s
}
