// Package pushdrv drives the REAL pushtx.Broadcaster with a scripted network
// (Config.Broadcast), a scripted block subscription and real wire.MsgTx values
// forming random dependency DAGs.  Every Config.Broadcast call is gated: the
// callback reports its arrival and waits for the harness to hand it the result,
// so the harness decides how the rebroadcast goroutine interleaves with the
// handler.  Output: line protocol (package tr), replayed by lean/Driver/Drv/PushTx.lean.
//
// Synchronisation without hooks:
//   - the handler goroutine is single-threaded and its channels are unbuffered, so a
//     completed MarkAsConfirmed(<hash nobody uses>) is a barrier: every earlier
//     event has been processed completely (goroutine spawned or not);
//   - "the rebroadcast goroutine is gone" = runtime.NumGoroutine() is back at the
//     baseline (count at the start of the case + calls that hung in this case + handler);
//   - "the handler has exited" = the subscription's Cancel closure ran.
package pushdrv

import (
	"errors"
	"fmt"
	"math/rand"
	"os"
	"runtime"
	"sort"
	"strings"
	"time"

	"github.com/btcsuite/btcd/chainhash/v2"
	"github.com/btcsuite/btcd/wire/v2"
	"github.com/lightninglabs/neutrino"
	"github.com/lightninglabs/neutrino/blockntfns"
	"github.com/lightninglabs/neutrino/pushtx"
	"verifharness/rejcorpus"
	"verifharness/tr"
)

func init() { tr.Register("pushtx", Run) }

const watchdog = 2 * time.Second

var (
	base0     int // goroutines alive before the first case
	leaked    int // calls that never returned (they stay blocked for ever)
	hangsSeen int
)

type cbCall struct {
	tx   *wire.MsgTx
	resp chan error
}

// customErr is what the scripted network returns when the case uses
// Config.MapCustomBroadcastError.
type customErr struct{ inner error }

func (c *customErr) Error() string { return "custom" }

type world struct {
	t         *tr.W
	b         *pushtx.Broadcaster
	calls     chan *cbCall
	ntfn      chan blockntfns.BlockNtfn
	cancelled chan struct{}
	stopDone  chan struct{}
	txs       []*wire.MsgTx
	idOf      map[chainhash.Hash]int
	inflight  *cbCall // rebroadcast callback waiting for its answer
	quitSent  bool
	stopped   bool
	mapper    bool
	tick      bool
	tick0     time.Time
	period    time.Duration
	dummy     chainhash.Hash
	r         *rand.Rand
	base      int  // goroutines alive when the case started (calls of earlier cases that are blocked for ever included)
	leak0     int  // value of `leaked` when the case started
	subClosed bool // the block subscription's channel has been closed
	hung      bool // a call did not return: end the case (every further call would wait out the watchdog)
}

// closesub: the source of block notifications goes away (subscription cancelled, block
// manager torn down) while the Broadcaster keeps running: the channel it follows is closed.
// Ticks, Broadcast and MarkAsConfirmed must go on working.
func (w *world) closesub() {
	w.t.Hit("op.closesub")
	if w.inflight != nil {
		w.t.Hit("branch.closesub.during-rebroadcast")
	}
	close(w.ntfn)
	w.subClosed = true
	w.t.Op("closesub", "ret")
}

// classOf: ground-truth class (property vocabulary, see rejcorpus) of a scripted result.
var classOf = map[string]string{"mempool": "mempool", "confirmed": "confirmed", "invalid": "invalid", "fee": "fee", "unknown": "other"}

// netErr is what the scripted network answers for the scripted result `res`.  Half of
// the time the error is not built by hand but is what the REAL pushtx.ParseBroadcastError
// makes of a realistic btcd/bitcoind reject message whose hand-written ground-truth class
// is `res` (with the transaction's id embedded as the real nodes do), so that the path
// reject message -> classification -> handler/rebroadcast decision is exercised end to end.
func (w *world) netErr(res string, tx *wire.MsgTx) error {
	class, ok := classOf[res]
	if !ok || w.r.Intn(2) == 0 {
		return errOf(res, w.mapper)
	}
	es := rejcorpus.OfClass(class)
	e := es[w.r.Intn(len(es))]
	reason := rejcorpus.Render(e, w.r, tx.TxHash().String())
	w.t.Line("# via %s reject %s <%s> (ground truth: %s)", e.Node, e.Code, reason, class)
	w.t.Hit("corpus." + class + "." + e.Node)
	var err error = pushtx.ParseBroadcastError(&wire.MsgReject{Cmd: wire.CmdTx, Code: e.Code, Reason: reason, Hash: tx.TxHash()}, "10.0.0.1:18444")
	if w.mapper {
		return &customErr{err}
	}
	return err
}

var resNames = []string{"accepted", "mempool", "confirmed", "invalid", "fee", "unknown", "plain"}

func errOf(res string, custom bool) error {
	var e error
	switch res {
	case "accepted":
		return nil
	case "mempool":
		e = &pushtx.BroadcastError{Code: pushtx.Mempool, Reason: "m"}
	case "confirmed":
		e = &pushtx.BroadcastError{Code: pushtx.Confirmed, Reason: "c"}
	case "invalid":
		e = &pushtx.BroadcastError{Code: pushtx.Invalid, Reason: "i"}
	case "fee":
		e = &pushtx.BroadcastError{Code: pushtx.InsufficientFee, Reason: "f"}
	case "unknown":
		e = &pushtx.BroadcastError{Code: pushtx.Unknown, Reason: "u"}
	default:
		e = errors.New("plain")
	}
	if custom {
		return &customErr{e}
	}
	return e
}

func nameOf(err error) string {
	switch {
	case err == nil:
		return "ok"
	case err == pushtx.ErrBroadcasterStopped:
		return "stopped"
	}
	if be, ok := err.(*pushtx.BroadcastError); ok {
		switch be.Code {
		case pushtx.Mempool:
			return "err mempool"
		case pushtx.Confirmed:
			return "err confirmed"
		case pushtx.Invalid:
			return "err invalid"
		case pushtx.InsufficientFee:
			return "err fee"
		default:
			return "err unknown"
		}
	}
	if _, ok := err.(*customErr); ok {
		return "err custom-unmapped"
	}
	return "err plain"
}

// mkTxs builds n real transactions; tx i spends outputs of some earlier txs.
func mkTxs(r *rand.Rand, n int) ([]*wire.MsgTx, [][]int) {
	txs := make([]*wire.MsgTx, n)
	deps := make([][]int, n)
	for i := 0; i < n; i++ {
		tx := wire.NewMsgTx(2)
		seen := map[int]bool{}
		if i > 0 {
			np := r.Intn(3)
			if r.Intn(3) == 0 {
				np = r.Intn(i + 1)
			}
			for j := 0; j < np; j++ {
				p := r.Intn(i)
				if r.Intn(2) == 0 {
					p = i - 1 - r.Intn(min(i, 2)) // chains
				}
				idx := uint32(r.Intn(2))
				if seen[p] {
					idx = 2 // a second output of the same parent (duplicate edge in DependencySort's graph)
				}
				seen[p] = true
				h := txs[p].TxHash()
				tx.AddTxIn(wire.NewTxIn(wire.NewOutPoint(&h, idx), nil, nil))
			}
		}
		if len(tx.TxIn) == 0 || r.Intn(3) == 0 {
			var h chainhash.Hash
			r.Read(h[:])
			tx.AddTxIn(wire.NewTxIn(wire.NewOutPoint(&h, uint32(r.Intn(4))), nil, nil))
		}
		for o := 0; o < 3; o++ {
			tx.AddTxOut(wire.NewTxOut(int64(1000+r.Intn(100000)), []byte{0x51, byte(i), byte(o)}))
		}
		tx.LockTime = uint32(r.Intn(1 << 20))
		txs[i] = tx
		for p := range seen {
			deps[i] = append(deps[i], p)
		}
		sort.Ints(deps[i])
	}
	return txs, deps
}

func newWorld(t *tr.W, r *rand.Rand, txs []*wire.MsgTx, tick, mapper bool) *world {
	return newWorldPeriod(t, r, txs, tick, mapper, 40*time.Millisecond)
}

// newWorldPeriod: with tick, the Broadcaster runs on a real RebroadcastInterval of `period`.
func newWorldPeriod(t *tr.W, r *rand.Rand, txs []*wire.MsgTx, tick, mapper bool, period time.Duration) *world {
	w := &world{t: t, r: r, txs: txs, idOf: map[chainhash.Hash]int{}, tick: tick, mapper: mapper,
		calls: make(chan *cbCall, 64), ntfn: make(chan blockntfns.BlockNtfn),
		cancelled: make(chan struct{}), period: time.Hour}
	for i, tx := range txs {
		w.idOf[tx.TxHash()] = i
	}
	r.Read(w.dummy[:])
	if tick {
		w.period = period
	}
	cfg := &pushtx.Config{
		Broadcast: func(tx *wire.MsgTx) error {
			c := &cbCall{tx: tx, resp: make(chan error, 1)}
			w.calls <- c
			return <-c.resp
		},
		SubscribeBlocks: func() (*blockntfns.Subscription, error) {
			return &blockntfns.Subscription{Notifications: w.ntfn, Cancel: func() { close(w.cancelled) }}, nil
		},
		RebroadcastInterval: w.period,
	}
	if mapper {
		cfg.MapCustomBroadcastError = func(err error) error {
			if c, ok := err.(*customErr); ok {
				return c.inner
			}
			return err
		}
	}
	// Baseline for this case.  Calls that hung in an earlier case either stay blocked for ever
	// (MarkAsConfirmed without a quit alternative) or returned when that case's Stop closed quit
	// (a Broadcast nobody served), so the count is taken afresh: wait until it has been stable
	// for a few reads (wrapper goroutines of the previous case finish within microseconds).
	w.base, w.leak0 = stableGoroutines(), leaked
	w.b = pushtx.NewBroadcaster(cfg)
	w.tick0 = time.Now()
	if err := w.b.Start(); err != nil {
		panic(err)
	}
	return w
}

func stableGoroutines() int {
	n, same := runtime.NumGoroutine(), 0
	for i := 0; i < 2000 && same < 5; i++ {
		time.Sleep(200 * time.Microsecond)
		if m := runtime.NumGoroutine(); m == n {
			same++
		} else {
			n, same = m, 0
		}
	}
	return n
}

// guard runs f under the watchdog; false = it never returned.
func guard(f func()) bool {
	done := make(chan struct{})
	go func() { f(); close(done) }()
	select {
	case <-done:
		return true
	case <-time.After(watchdog):
		leaked++
		hangsSeen++
		return false
	}
}

func (w *world) baseline() int {
	n := w.base + (leaked - w.leak0)
	if !w.quitSent {
		n++ // handler
	}
	return n
}

// settle waits until either a new Config.Broadcast call arrives or no goroutine
// beyond the baseline (+ the rebroadcast already waiting for its answer) is alive.
func (w *world) settle() (*cbCall, bool) {
	want := w.baseline()
	if w.inflight != nil {
		want++
	}
	deadline := time.Now().Add(watchdog)
	for i := 0; ; i++ {
		select {
		case c := <-w.calls:
			return c, true
		default:
		}
		if runtime.NumGoroutine() <= want {
			// a call that arrived just before the goroutine count was read
			select {
			case c := <-w.calls:
				return c, true
			default:
			}
			return nil, true
		}
		if time.Now().After(deadline) {
			return nil, false
		}
		if i < 200 {
			runtime.Gosched()
		} else {
			time.Sleep(50 * time.Microsecond)
		}
	}
}

func (w *world) barrier() bool {
	return guard(func() { w.b.MarkAsConfirmed(w.dummy) })
}

func (w *world) id(tx *wire.MsgTx) int {
	if i, ok := w.idOf[tx.TxHash()]; ok {
		return i
	}
	return 999
}

func (w *world) nextObs(c *cbCall, ok bool, none string) string {
	switch {
	case !ok:
		return "HANG"
	case c != nil:
		obs := fmt.Sprintf("rb %d", w.id(c.tx))
		if w.inflight != nil {
			// a second rebroadcast although one is waiting: answer the new one at once so that it cannot wedge the run
			c.resp <- errOf("mempool", w.mapper)
			return obs
		}
		w.inflight = c
		return obs
	default:
		return none
	}
}

func (w *world) bcast(i int, res string) {
	w.t.Hit("op.bcast." + res)
	tx := w.txs[i]
	op := fmt.Sprintf("bcast %d %s", i, res)
	errc := make(chan error, 1)
	go func() { errc <- w.b.Broadcast(tx) }()
	timeout := time.After(watchdog)
	for {
		select {
		case c := <-w.calls:
			if c.tx != tx {
				// not the handler's call for this request: a rebroadcast nobody asked for
				w.t.Op("unexpected", fmt.Sprintf("rb %d", w.id(c.tx)))
				c.resp <- errOf("mempool", w.mapper)
				continue
			}
			c.resp <- w.netErr(res, tx)
		case err := <-errc:
			w.t.Op(op, nameOf(err))
			if w.quitSent {
				w.t.Hit("branch.bcast.after-stop")
			}
			return
		case <-timeout:
			leaked++
			hangsSeen++
			w.hung = true
			w.t.Op(op, "HANG")
			return
		}
	}
}

func (w *world) confirm(i int) {
	w.t.Hit("op.confirm")
	if w.quitSent {
		w.t.Hit("branch.confirm.after-stop")
	}
	h := w.txs[i].TxHash()
	if guard(func() { w.b.MarkAsConfirmed(h) }) {
		w.t.Op(fmt.Sprintf("confirm %d", i), "ret")
	} else {
		w.hung = true
		w.t.Op(fmt.Sprintf("confirm %d", i), "HANG")
	}
}

func (w *world) block() {
	w.t.Hit("op.block")
	var hdr wire.BlockHeader
	var n blockntfns.BlockNtfn = blockntfns.NewBlockConnected(hdr, 1)
	if w.t.Ops%3 == 0 {
		n = blockntfns.NewBlockDisconnected(hdr, 1, hdr)
	}
	sent := guard(func() { w.ntfn <- n })
	if !sent || !w.barrier() {
		w.t.Op("block", "HANG")
		return
	}
	busy := w.inflight != nil
	c, ok := w.settle()
	none := "none"
	if busy {
		none = "busy"
		w.t.Hit("branch.trigger.busy")
	} else if c == nil {
		w.t.Hit("branch.trigger.idle")
	} else {
		w.t.Hit("branch.trigger.started")
	}
	w.t.Op("block", w.nextObs(c, ok, none))
}

// waitTick waits for the ticker to start a rebroadcast (only called when something is pending).
func (w *world) waitTick() {
	w.t.Hit("op.tick")
	select {
	case c := <-w.calls:
		w.t.Op("tick", w.nextObs(c, true, "none"))
	case <-time.After(watchdog):
		w.t.Op("tick", "none")
	}
}

// align sleeps until the ticker is in the first part of its period, so that the
// end of a rebroadcast is observed before the next tick can start another one.
func (w *world) align() {
	if !w.tick || w.quitSent {
		return
	}
	for {
		ph := time.Since(w.tick0) % w.period
		if ph > w.period/10 && ph < w.period*4/10 {
			return
		}
		time.Sleep(time.Millisecond)
	}
}

func (w *world) rbres(res string) {
	w.t.Hit("op.rbres." + res)
	c := w.inflight
	op := fmt.Sprintf("rbres %d %s", w.id(c.tx), res)
	w.align()
	w.inflight = nil
	c.resp <- w.netErr(res, c.tx)
	if w.quitSent {
		w.t.Hit("branch.rbres.after-quit")
		select {
		case c2 := <-w.calls:
			w.t.Op(op, w.nextObs(c2, true, "done"))
		case <-w.stopDone:
			w.t.Op(op, "done")
		case <-time.After(watchdog):
			w.t.Op(op, "HANG")
		}
		return
	}
	c2, ok := w.settle()
	if c2 == nil {
		w.t.Hit("branch.rb.done")
	} else {
		w.t.Hit("branch.rb.more")
	}
	w.t.Op(op, w.nextObs(c2, ok, "done"))
}

// bcastDuringStop: Broadcast(tx) is waiting for the handler (which is inside the
// network call) when Stop closes quit: Broadcast must return the stop error at
// once, without waiting for the network.
func (w *world) bcastDuringStop(i int, res string) {
	w.t.Hit("op.bcastq")
	tx := w.txs[i]
	op := fmt.Sprintf("bcastq %d %s", i, res)
	errc := make(chan error, 1)
	go func() { errc <- w.b.Broadcast(tx) }()
	var c *cbCall
	select {
	case c = <-w.calls:
	case <-time.After(watchdog):
	}
	if c == nil || c.tx != tx {
		w.t.Op(op, "NOCALL")
		return
	}
	w.startStop()
	select {
	case err := <-errc:
		w.t.Op(op, nameOf(err))
	case <-time.After(watchdog):
		leaked++
		w.t.Op(op, "HANG")
	}
	c.resp <- w.netErr(res, tx)
	w.awaitCancel()
}

func (w *world) startStop() {
	w.t.Hit("op.stop")
	if w.inflight != nil {
		w.t.Hit("branch.stop.during-rebroadcast")
	}
	w.stopDone = make(chan struct{})
	go func() { w.b.Stop(); close(w.stopDone) }()
	w.quitSent = true
}

func (w *world) quit() {
	w.startStop()
	w.awaitCancel()
}

func (w *world) awaitCancel() {
	select {
	case <-w.cancelled:
		w.t.Op("quit", "cancelled")
	case <-time.After(watchdog):
		w.t.Op("quit", "HANG")
	}
}

func (w *world) stopret() {
	timeout := time.After(watchdog)
	for {
		select {
		case <-w.stopDone:
			w.stopped = true
			w.t.Op("stopret", "ret")
			return
		case c := <-w.calls:
			// only possible with a real ticker: a rebroadcast that started between the last step and Stop
			w.t.Line("# late rebroadcast call for tx %d answered during Stop", w.id(c.tx))
			c.resp <- errOf("mempool", w.mapper)
		case <-timeout:
			leaked++
			w.t.Op("stopret", "HANG")
			return
		}
	}
}

func pick(r *rand.Rand, weights []int) int {
	s := 0
	for _, x := range weights {
		s += x
	}
	v := r.Intn(s)
	for i, x := range weights {
		if v < x {
			return i
		}
		v -= x
	}
	return 0
}

func header(kind string, deps [][]int, mapper bool) string {
	parts := make([]string, len(deps))
	for i, d := range deps {
		ps := make([]string, len(d))
		for j, p := range d {
			ps[j] = fmt.Sprint(p)
		}
		parts[i] = fmt.Sprintf("%d:%s", i, strings.Join(ps, "."))
	}
	m := 0
	if mapper {
		m = 1
	}
	return fmt.Sprintf("%s map %d txs [%s]", kind, m, strings.Join(parts, " "))
}

var bcastW = []int{35, 25, 10, 10, 7, 6, 7}   // accepted mempool confirmed invalid fee unknown plain
var rbW = []int{25, 40, 20, 5, 3, 3, 4}

// afterStop exercises the public methods once quit is closed.
func (w *world) afterStop(r *rand.Rand, n int) {
	for k := 0; k < n; k++ {
		i := r.Intn(len(w.txs))
		if r.Intn(2) == 0 {
			w.bcast(i, resNames[pick(r, bcastW)])
		} else if hangsSeen < 3 {
			w.confirm(i)
		}
	}
}

func seqCase(t *tr.W, r *rand.Rand) {
	n := 1 + r.Intn(7)
	txs, deps := mkTxs(r, n)
	mapper := r.Intn(4) == 0
	t.Case("%s", header("seq", deps, mapper))
	w := newWorld(t, r, txs, false, mapper)
	steps := 4 + r.Intn(22)
	for s := 0; s < steps && !w.quitSent && !w.hung; s++ {
		if w.inflight != nil && r.Intn(100) < 45 {
			w.rbres(resNames[pick(r, rbW)])
			continue
		}
		choice := pick(r, []int{40, 15, 35, 4, 3})
		if choice == 4 && (w.subClosed || hangsSeen >= 3) {
			choice = 0
		}
		if choice == 2 && w.subClosed {
			choice = 1 - r.Intn(2) // no block event can arrive on a closed channel
		}
		switch choice {
		case 4:
			w.closesub()
		case 0:
			w.bcast(r.Intn(n), resNames[pick(r, bcastW)])
		case 1:
			w.confirm(r.Intn(n))
		case 2:
			w.block()
		case 3:
			if r.Intn(3) == 0 {
				w.bcastDuringStop(r.Intn(n), resNames[pick(r, bcastW)])
			} else {
				w.quit()
			}
		}
	}
	if !w.quitSent {
		if r.Intn(2) == 0 {
			// finish the running rebroadcast first
			for k := 0; w.inflight != nil && k < 64; k++ {
				w.rbres(resNames[pick(r, rbW)])
			}
		}
		w.quit()
	}
	if w.inflight != nil {
		w.afterStop(r, r.Intn(3))
		w.rbres(resNames[pick(r, rbW)])
	}
	w.stopret()
	w.afterStop(r, r.Intn(4))
}

// tickCase: the ticker (40 ms) is the only trigger.  State changes are made only
// while a rebroadcast is waiting for its answer (ticks are then no-ops) or while
// nothing is pending (ticks are then invisible), so the run is deterministic.
func tickCase(t *tr.W, r *rand.Rand) {
	n := 2 + r.Intn(5)
	txs, deps := mkTxs(r, n)
	t.Case("%s", header("tick", deps, false))
	w := newWorld(t, r, txs, true, false)
	pending := map[int]bool{}
	first := r.Intn(n)
	w.bcast(first, "accepted")
	pending[first] = true
	// closing: the block subscription's channel is closed during the first rebroadcast; nothing is
	// confirmed in that round, so that something is still pending and the NEXT TICK has to
	// rebroadcast it although the subscription is gone
	closing := hangsSeen < 3 && r.Intn(2) == 0
	for round := 0; round < 2 && len(pending) > 0; round++ {
		w.waitTick()
		if w.inflight == nil {
			break
		}
		for k := r.Intn(5); k > 0; k-- {
			i := r.Intn(n)
			if r.Intn(3) == 0 && !(closing && round == 0) {
				w.confirm(i)
				delete(pending, i)
			} else {
				res := resNames[pick(r, bcastW)]
				w.bcast(i, res)
				if res == "accepted" || res == "mempool" {
					pending[i] = true
				}
			}
		}
		if w.hung {
			break
		}
		if round == 0 && closing {
			// from here on the ticker is the only thing that can start a rebroadcast
			w.closesub()
		}
		for k := 0; w.inflight != nil && k < 64; k++ {
			res := resNames[pick(r, rbW)]
			if res == "confirmed" && closing && round == 0 {
				res = "mempool"
			}
			if res == "confirmed" {
				delete(pending, w.id(w.inflight.tx))
			}
			w.rbres(res)
		}
	}
	w.quit()
	w.stopret()
}

// ---------------------------------------------------------------------------
// A rebroadcast round that outlasts the rebroadcast interval.

const (
	// slowInterval is the real RebroadcastInterval of a slow case.
	slowInterval = 50 * time.Millisecond
	// silentWait bounds the wait for the next Config.Broadcast call once a round has been answered
	// completely and nothing but the interval can start the next one: 40 intervals.
	silentWait = 40 * slowInterval
)

// hold leaves the running rebroadcast's call unanswered until k and a half intervals have passed
// since `since` (the interval elapses k times while the rebroadcast semaphore is taken).  No other
// Config.Broadcast call may arrive in that time.
func (w *world) hold(k int, since time.Time) {
	w.t.Hit("op.hold")
	op := fmt.Sprintf("hold %d", k)
	d := time.Duration(k)*w.period + w.period/2 - time.Since(since)
	select {
	case c := <-w.calls:
		w.t.Op(op, fmt.Sprintf("rb %d", w.id(c.tx)))
		c.resp <- errOf("mempool", w.mapper)
	case <-time.After(d):
		w.t.Op(op, "busy")
	}
}

// answer hands the waiting rebroadcast call its result and waits for the next call, whoever makes it:
// the same rebroadcast going on to its next transaction, or - when that was the last one - the
// rebroadcast the next interval tick starts (no block event is sent).  "silent": no call within
// silentWait.
func (w *world) answer(res string) {
	w.t.Hit("op.answer." + res)
	c := w.inflight
	op := fmt.Sprintf("rbres %d %s", w.id(c.tx), res)
	w.inflight = nil
	c.resp <- w.netErr(res, c.tx)
	select {
	case c2 := <-w.calls:
		w.inflight = c2
		w.t.Op(op, fmt.Sprintf("rb %d", w.id(c2.tx)))
	case <-time.After(silentWait):
		w.t.Hit("branch.answer.silent")
		w.t.Op(op, "silent")
	}
}

// slowCase: transaction 0 is accepted; a block event or the first interval tick starts a rebroadcast
// whose network call the harness leaves unanswered for several intervals (slow or silent peers: one
// sendTransaction takes up to six seconds, the default interval is a minute).  Meanwhile further
// transactions are broadcast and some are reported confirmed.  Then every call is answered at once
// and NO block event follows: the interval alone has to start the next rebroadcasts, each with every
// transaction accepted and not reported confirmed.  Transaction 0 is never confirmed, so there is
// always something to rebroadcast.  The run is deterministic up to which trigger started the first
// round and where one round ends and the next begins; the oracle derives the latter from the calls
// (a round is over when its whole snapshot has been handed to the network).
func slowCase(t *tr.W, r *rand.Rand) {
	n := 2 + r.Intn(4)
	txs, deps := mkTxs(r, n)
	t.Case("%s", header("slow", deps, false))
	t.Hit("case.slow")
	w := newWorldPeriod(t, r, txs, true, false, slowInterval)
	w.bcast(0, []string{"accepted", "mempool"}[r.Intn(2)])
	if r.Intn(2) == 0 {
		w.block()
	} else {
		w.waitTick()
	}
	started := time.Now()
	if w.inflight != nil {
		accepted := 1
		for k := r.Intn(5); k > 0 && !w.hung; k-- {
			i := 1 + r.Intn(n-1)
			if r.Intn(4) == 0 {
				w.confirm(i)
			} else {
				res := resNames[pick(r, bcastW)]
				w.bcast(i, res)
				if res == "accepted" || res == "mempool" {
					accepted++
				}
			}
		}
		if !w.hung {
			w.hold(2+r.Intn(3), started)
		}
		// the first round (transaction 0 alone), then two rounds the interval has to start, and the first call of a third
		for calls := 0; calls < 2+2*accepted && w.inflight != nil && !w.hung; calls++ {
			res := "mempool"
			if w.id(w.inflight.tx) != 0 {
				res = resNames[pick(r, rbW)]
			}
			w.answer(res)
		}
	}
	w.quit()
	if w.inflight != nil {
		w.rbres("mempool")
	}
	w.stopret()
}

func fcmpCase(t *tr.W, thorough bool) {
	t.Case("fcmp")
	thr := [][2]int{{1, 2}, {3, 5}, {2, 3}, {1, 1}, {1, 3}, {9, 10}}
	if thorough {
		thr = append(thr, [][2]int{{3, 4}, {1, 10}, {0, 1}, {7, 10}, {5, 8}, {124, 125}, {1, 125}, {2, 1}}...)
	}
	b := func(x bool) int {
		if x {
			return 1
		}
		return 0
	}
	for n := 1; n <= 125; n++ {
		for k := 0; k <= n; k++ {
			q := float32(k) / float32(n)
			d := neutrino.QueryInvalidTxThreshold
			t.Op(fmt.Sprintf("fcmp %d %d default 0", k, n), fmt.Sprintf("%d %d", b(q >= d), b(q > d)))
			for _, th := range thr {
				f := float32(th[0]) / float32(th[1])
				t.Op(fmt.Sprintf("fcmp %d %d %d %d", k, n, th[0], th[1]), fmt.Sprintf("%d %d", b(q >= f), b(q > f)))
			}
		}
	}
	t.Hit("fcmp.thresholds")
}

func parseCase(t *tr.W, r *rand.Rand, rounds int) {
	t.Case("parse")
	codes := []wire.RejectCode{wire.RejectMalformed, wire.RejectInvalid, wire.RejectObsolete, wire.RejectDuplicate,
		wire.RejectNonstandard, wire.RejectDust, wire.RejectInsufficientFee, wire.RejectCheckpoint}
	subs := []string{"txn-mempool-conflict", "txn-already-in-mempool", "txn-already-known", "already spent",
		"already have transaction", "transaction already exists"}
	filler := []string{"bad", "txn", "already", "have", "spent", "transaction", "exists", "known", "mempool", "tx-size", "x", "non-final", "already-spent"}
	words := func(k int) []string {
		var ws []string
		for i := 0; i < k; i++ {
			ws = append(ws, filler[r.Intn(len(filler))])
		}
		return ws
	}
	emit := func(code wire.RejectCode, reason string) {
		e := pushtx.ParseBroadcastError(&wire.MsgReject{Cmd: wire.CmdTx, Code: code, Reason: reason}, "peer")
		t.Op(strings.TrimRight(fmt.Sprintf("parse %s %s", code, reason), " "), e.Code.String())
		t.Hit("parse." + e.Code.String())
	}
	for _, c := range codes {
		emit(c, "")
		for _, s := range subs {
			emit(c, s)
			for _, s2 := range subs {
				emit(c, s+" "+s2)
			}
		}
	}
	for i := 0; i < rounds; i++ {
		c := codes[r.Intn(len(codes))]
		if r.Intn(2) == 0 {
			c = wire.RejectDuplicate
		}
		var ws []string
		ws = append(ws, words(r.Intn(3))...)
		for k := r.Intn(3); k > 0; k-- {
			s := subs[r.Intn(len(subs))]
			if r.Intn(4) == 0 {
				s = s[:len(s)-1] // near miss
			}
			ws = append(ws, s)
			ws = append(ws, words(r.Intn(2))...)
		}
		reason := strings.Join(ws, " ")
		switch r.Intn(12) {
		case 0:
			reason = strings.ToUpper(reason)
		case 1:
			reason = strings.Title(reason)
		}
		emit(c, reason)
	}
	// the labelled corpus, bare and decorated, through the real classifier (model = regenerated table)
	for _, e := range rejcorpus.Corpus {
		var h chainhash.Hash
		r.Read(h[:])
		reason := rejcorpus.Render(e, r, h.String())
		emit(e.Code, reason)
		emit(e.Code, "rejected: "+reason)
		emit(e.Code, reason+" (code "+fmt.Sprint(uint8(e.Code))+")")
	}
}

func Run(t *tr.W, thorough bool) {
	tr.MaxHangs = 8
	base0 = runtime.NumGoroutine()
	budget := tr.EnvInt("VERIF_BUDGET", 1)
	if os.Getenv("VERIF_SEARCH") != "" {
		// bin/check's search pass after a broken tie: never more than three quick runs, whatever
		// the tier (a harmless rewrite that breaks a source fact must not cost minutes)
		thorough = false
		if budget > 3 {
			budget = 3
		}
	}
	r := tr.Rng(15)
	nseq, ntick, nparse, nslow := 400, 6, 600, 6
	if thorough {
		nseq, ntick, nparse, nslow = 6000, 60, 5000, 40
	}
	nseq *= budget
	nparse *= budget
	if budget > 1 {
		ntick *= 3
		nslow *= 2
	}
	for i := 0; i < nseq; i++ {
		// one PRNG per case (seed, case index): what the implementation does in one case (map
		// iteration order inside DependencySort changes how long a rebroadcast lasts) cannot
		// shift the scripts of the later cases, so a finding recurs at the same case number
		seqCase(t, tr.Rng(int64(150000+2*i)))
		if i%(nseq/ntick+1) == 0 {
			tickCase(t, tr.Rng(int64(150001+2*i)))
		}
		if i%(nseq/nslow+1) == nseq/(2*nslow) {
			slowCase(t, tr.Rng(int64(950001+2*i)))
		}
	}
	parseCase(t, r, nparse)
	fcmpCase(t, thorough)
}
