// Package filterdrv drives the real ChainService.GetCFilter (query.go:
// GetCFilter, prepareCFiltersQuery, cfiltersQuery.handleResponse) with real
// block / filter header stores holding a ground-truth chain (true BIP158
// filters), the real LRU filter cache, the real filterdb on a temp bbolt and
// the real chanutils.BatchWriter, around a scripted query.WorkManager that
// feeds arbitrary cfilter response streams to the real handler.
//
//	case <n> cf cap <bytes> persist <0|1> tip <block tip> ftip <filter tip> maxrange <wire const>
//	get <target> <regular> <batch n|f|r> <maxBatch> <cont> <verdict> [ resp ... ]
//	   => <ret:fid:v | err:kind> prog [n|p|f ...] rg <start>:<stop>|- cache [blk:fid:size:v ...] db [blk:fid:v ...] puts [blk:fid ...]
//	   (puts: what the call handed to FilterDB.PutFilters, in order)
//	   a get line may end in `bg <k> <commits> <ballast> [blk:fid ...]`: right after the k-th read transaction
//	   of the filter database within the call was closed, a concurrent writer persisted these (true) filters
//	   in <commits> write transactions and wrote <ballast> bytes to another bucket of the same bbolt file
//	recommit <h> [ header ids ... ] => ok
//	restart => ok
//
// resp = c:<ftypeOk>:<blk>:<decodes>:<fid>:<size>:<prev>:<hdr>:<peer>  (a cfilter message; hdr = id of
// MakeHeaderForFilter(filter, committed header <prev> of the block before blk), 0 if not computable)
// or o (another message).  blk = height of the named block, or an id > 100000
// for a hash the header store does not know.  Header ids: the true header of
// height i is i+1; others from 200001.  v = this driver's own recomputation of
// the filter header from the real bytes against the CURRENT filter-header store.
package filterdrv

import (
	"crypto/sha256"
	"errors"
	"fmt"
	"math/rand"
	"os"
	"path/filepath"
	"runtime/debug"
	"sort"
	"strconv"
	"strings"
	"sync"
	"time"

	"github.com/btcsuite/btcd/btcutil/v2/gcs"
	"github.com/btcsuite/btcd/btcutil/v2/gcs/builder"
	"github.com/btcsuite/btcd/chaincfg/v2"
	"github.com/btcsuite/btcd/chainhash/v2"
	"github.com/btcsuite/btcd/wire/v2"
	"github.com/btcsuite/btcwallet/walletdb"
	_ "github.com/btcsuite/btcwallet/walletdb/bdb"
	"github.com/lightninglabs/neutrino"
	"github.com/lightninglabs/neutrino/cache/lru"
	"github.com/lightninglabs/neutrino/filterdb"
	"github.com/lightninglabs/neutrino/headerfs"
	"github.com/lightninglabs/neutrino/query"
	"verifharness/tr"
)

var params = chaincfg.RegressionNetParams

var errScript = errors.New("scripted dispatcher gave up")

const uniBlocks = 1100

// ---------------------------------------------------------------------------
// universe: real header stores with a ground-truth chain

type universe struct {
	dir    string
	db     walletdb.DB
	bs     headerfs.BlockHeaderStore
	fs     headerfs.FilterHeaderStore
	hashes []chainhash.Hash // block hash by height (0 = genesis)
	height map[chainhash.Hash]int
	blocks []*wire.MsgBlock // by height, [0] unused
	truF   []*gcs.Filter    // true filter by height
	altF   []*gcs.Filter    // another well-formed filter for the same block
	truH   []chainhash.Hash // true filter header by height
	ftip   int              // current filter tip in the store
	cur    []chainhash.Hash // currently committed filter headers by height

	// chain B: another branch above height forkAt (same length as A), with its own
	// blocks, true filters and filter headers; [h] valid for forkAt < h <= uniBlocks
	bHashes []chainhash.Hash
	bHeight map[chainhash.Hash]int
	bHdrs   []wire.BlockHeader
	bF      []*gcs.Filter
	bH      []chainhash.Hash
	onB     bool // the stores currently hold branch B above forkAt
	bTip    int  // block tip while on B
}

// forkAt is the last height common to the chains A and B.
const forkAt = uniBlocks - 12

// altBase + h names the block of branch B at height h.
const altBase = 500000

// hookStore is the real block-header store with a hook that runs right after the
// first FetchHeader (by hash) call, i.e. between the by-hash lookup and the
// by-height lookups of prepareCFiltersQuery.
type hookStore struct {
	headerfs.BlockHeaderStore
	onFetch func()
}

func (s *hookStore) FetchHeader(h *chainhash.Hash) (*wire.BlockHeader, uint32, error) {
	hd, ht, err := s.BlockHeaderStore.FetchHeader(h)
	if f := s.onFetch; f != nil {
		s.onFetch = nil
		f()
	}
	return hd, ht, err
}

// reorgToB replaces, in the REAL stores, the blocks above forkAt by nb blocks of
// branch B and commits B's filter headers (all but the last `lag`).
func (u *universe) reorgToB(nb, lag int) {
	// as rollBackToHeight does: filter headers first (the hash index is shared), then block headers
	for u.ftip > forkAt {
		if _, err := u.fs.RollbackLastBlock(&u.hashes[u.ftip-1]); err != nil {
			panic(err)
		}
		u.ftip--
	}
	for i := uniBlocks; i > forkAt; i-- {
		if _, err := u.bs.RollbackLastBlock(); err != nil {
			panic(err)
		}
	}
	var bh []headerfs.BlockHeader
	for h := forkAt + 1; h <= forkAt+nb; h++ {
		hd := u.bHdrs[h]
		bh = append(bh, headerfs.BlockHeader{BlockHeader: &hd, Height: uint32(h)})
	}
	if err := u.bs.WriteHeaders(bh...); err != nil {
		panic(err)
	}
	var fh []headerfs.FilterHeader
	for h := forkAt + 1; h <= forkAt+nb-lag; h++ {
		fh = append(fh, headerfs.FilterHeader{HeaderHash: u.bHashes[h], FilterHash: u.bH[h], Height: uint32(h)})
	}
	if len(fh) > 0 {
		if err := u.fs.WriteHeaders(fh...); err != nil {
			panic(err)
		}
	}
	u.cur = append(append([]chainhash.Hash{}, u.truH[:forkAt+1]...), u.bH[forkAt+1:forkAt+nb-lag+1]...)
	u.ftip = forkAt + nb - lag
	u.onB, u.bTip = true, forkAt+nb
}

// restoreA puts branch A back.
func (u *universe) restoreA() {
	for u.ftip > forkAt {
		nt := u.hashes[u.ftip-1]
		if u.ftip-1 > forkAt {
			nt = u.bHashes[u.ftip-1]
		}
		if _, err := u.fs.RollbackLastBlock(&nt); err != nil {
			panic(err)
		}
		u.ftip--
	}
	for i := u.bTip; i > forkAt; i-- {
		if _, err := u.bs.RollbackLastBlock(); err != nil {
			panic(err)
		}
	}
	var bh []headerfs.BlockHeader
	for h := forkAt + 1; h <= uniBlocks; h++ {
		hd := u.blocks[h].Header
		bh = append(bh, headerfs.BlockHeader{BlockHeader: &hd, Height: uint32(h)})
	}
	if err := u.bs.WriteHeaders(bh...); err != nil {
		panic(err)
	}
	u.onB = false
	u.cur = u.cur[:forkAt+1]
	u.setFilterHeaders(forkAt+1, u.truH[forkAt+1:])
}

var uni *universe

var caseNo int

func scratch(prefix string) string {
	base := ""
	if st, err := os.Stat("/dev/shm"); err == nil && st.IsDir() {
		base = "/dev/shm"
	}
	d, err := os.MkdirTemp(base, prefix)
	if err != nil {
		d, err = os.MkdirTemp("", prefix)
		if err != nil {
			panic(err)
		}
	}
	return d
}

func script(r *rand.Rand) []byte {
	s := make([]byte, 22)
	r.Read(s)
	s[0], s[1] = 0x00, 0x14
	return s
}

func getUniverse(r *rand.Rand) *universe {
	if uni != nil {
		return uni
	}
	dir := scratch("verif-cfuni")
	db, err := walletdb.Create("bdb", filepath.Join(dir, "n.db"), true, 10*time.Second, false)
	if err != nil {
		panic(err)
	}
	bs, err := headerfs.NewBlockHeaderStore(dir, db, &params)
	if err != nil {
		panic(err)
	}
	fs, err := headerfs.NewFilterHeaderStore(dir, db, headerfs.RegularFilter, &params, nil)
	if err != nil {
		panic(err)
	}
	u := &universe{dir: dir, db: db, bs: bs, fs: fs, height: map[chainhash.Hash]int{}}
	u.hashes = append(u.hashes, *params.GenesisHash)
	u.height[*params.GenesisHash] = 0
	u.blocks = append(u.blocks, nil)
	u.truF = append(u.truF, nil)
	u.altF = append(u.altF, nil)
	g, err := fs.FetchHeaderByHeight(0)
	if err != nil {
		panic(err)
	}
	u.truH = append(u.truH, *g)
	prev := *params.GenesisHash
	ts := params.GenesisBlock.Header.Timestamp
	var bh []headerfs.BlockHeader
	var fh []headerfs.FilterHeader
	for i := 1; i <= uniBlocks; i++ {
		ts = ts.Add(10 * time.Minute)
		h := wire.BlockHeader{Version: 4, PrevBlock: prev, Timestamp: ts, Bits: params.PowLimitBits, Nonce: uint32(i)}
		b := wire.NewMsgBlock(&h)
		cb := wire.NewMsgTx(2)
		cb.AddTxIn(wire.NewTxIn(wire.NewOutPoint(&chainhash.Hash{}, wire.MaxPrevOutIndex), []byte{0x02, byte(i), byte(i >> 8)}, nil))
		cb.AddTxOut(wire.NewTxOut(50_0000_0000, script(r)))
		b.AddTransaction(cb)
		var prevScripts, altScripts [][]byte
		for j := r.Intn(3); j > 0; j-- {
			tx := wire.NewMsgTx(2)
			var ph chainhash.Hash
			r.Read(ph[:])
			tx.AddTxIn(wire.NewTxIn(wire.NewOutPoint(&ph, 0), nil, nil))
			tx.AddTxOut(wire.NewTxOut(1000, script(r)))
			b.AddTransaction(tx)
			prevScripts = append(prevScripts, script(r))
		}
		altScripts = append(altScripts, script(r), script(r))
		bhash := h.BlockHash()
		f, err := builder.BuildBasicFilter(b, prevScripts)
		if err != nil {
			panic(err)
		}
		af, err := builder.BuildBasicFilter(b, altScripts)
		if err != nil {
			panic(err)
		}
		fhdr, err := builder.MakeHeaderForFilter(f, u.truH[i-1])
		if err != nil {
			panic(err)
		}
		u.hashes = append(u.hashes, bhash)
		u.height[bhash] = i
		u.blocks = append(u.blocks, b)
		u.truF = append(u.truF, f)
		u.altF = append(u.altF, af)
		u.truH = append(u.truH, fhdr)
		hc := h
		bh = append(bh, headerfs.BlockHeader{BlockHeader: &hc, Height: uint32(i)})
		fh = append(fh, headerfs.FilterHeader{HeaderHash: bhash, FilterHash: fhdr, Height: uint32(i)})
		prev = bhash
	}
	if err := bs.WriteHeaders(bh...); err != nil {
		panic(err)
	}
	if err := fs.WriteHeaders(fh...); err != nil {
		panic(err)
	}
	u.ftip = uniBlocks
	u.cur = append([]chainhash.Hash{}, u.truH...)
	// branch B above forkAt
	u.bHashes = make([]chainhash.Hash, uniBlocks+1)
	u.bHdrs = make([]wire.BlockHeader, uniBlocks+1)
	u.bF = make([]*gcs.Filter, uniBlocks+1)
	u.bH = make([]chainhash.Hash, uniBlocks+1)
	u.bHeight = map[chainhash.Hash]int{}
	bprev, bprevH := u.hashes[forkAt], u.truH[forkAt]
	for i := forkAt + 1; i <= uniBlocks; i++ {
		h := u.blocks[i].Header
		h.PrevBlock = bprev
		h.Nonce += 7777777
		b := wire.NewMsgBlock(&h)
		cb := wire.NewMsgTx(2)
		cb.AddTxIn(wire.NewTxIn(wire.NewOutPoint(&chainhash.Hash{}, wire.MaxPrevOutIndex), []byte{0x03, byte(i), byte(i >> 8), 0xbb}, nil))
		cb.AddTxOut(wire.NewTxOut(50_0000_0000, script(r)))
		b.AddTransaction(cb)
		b.Header.MerkleRoot = cb.TxHash()
		f, err := builder.BuildBasicFilter(b, nil)
		if err != nil {
			panic(err)
		}
		fhdr, err := builder.MakeHeaderForFilter(f, bprevH)
		if err != nil {
			panic(err)
		}
		u.bHdrs[i] = b.Header
		u.bHashes[i] = b.Header.BlockHash()
		u.bHeight[u.bHashes[i]] = i
		u.bF[i] = f
		u.bH[i] = fhdr
		bprev, bprevH = u.bHashes[i], fhdr
	}
	uni = u
	return u
}

// setFilterHeaders rolls the real filter-header store back to height h-1 and
// commits the given headers for heights h, h+1, ...
func (u *universe) setFilterHeaders(h int, hdrs []chainhash.Hash) {
	for u.ftip >= h {
		if _, err := u.fs.RollbackLastBlock(&u.hashes[u.ftip-1]); err != nil {
			panic(err)
		}
		u.ftip--
	}
	u.cur = u.cur[:h]
	var fh []headerfs.FilterHeader
	for i, x := range hdrs {
		fh = append(fh, headerfs.FilterHeader{HeaderHash: u.hashes[h+i], FilterHash: x, Height: uint32(h + i)})
	}
	if len(fh) > 0 {
		if err := u.fs.WriteHeaders(fh...); err != nil {
			panic(err)
		}
	}
	u.cur = append(u.cur, hdrs...)
	u.ftip = h + len(hdrs) - 1
}

// ---------------------------------------------------------------------------

// countDB wraps the real filter database and counts the filters written.
type putRec struct {
	hash   chainhash.Hash
	nbytes []byte
}

// It embeds the CONCRETE store, not the FilterDatabase interface: whatever further
// methods the real store has (range fetches, ...) stay reachable through interface
// assertions of the code under test.
type countDB struct {
	*filterdb.FilterStore
	mu  sync.Mutex
	n   int
	log []putRec // every filter handed to PutFilters, in order
}

func (c *countDB) PutFilters(fs ...*filterdb.FilterData) error {
	err := c.FilterStore.PutFilters(fs...)
	c.mu.Lock()
	c.n += len(fs)
	for _, f := range fs {
		var nb []byte
		if f.Filter != nil {
			nb, _ = f.Filter.NBytes()
		}
		c.log = append(c.log, putRec{*f.BlockHash, nb})
	}
	c.mu.Unlock()
	return err
}

// takeLog returns and clears the put log.
func (c *countDB) takeLog() []putRec {
	c.mu.Lock()
	defer c.mu.Unlock()
	l := c.log
	c.log = nil
	return l
}

func (c *countDB) count() int { c.mu.Lock(); defer c.mu.Unlock(); return c.n }

// hookDB is the real walletdb (bbolt) of the filter database with one hook: right
// after the at-th read transaction since arming has been CLOSED, a concurrent
// writer runs (several committed write transactions on the same file).  All
// transactions are real bbolt transactions of the embedded database.
type hookDB struct {
	walletdb.DB
	mu    sync.Mutex
	at    int // fire after the at-th View (1-based); 0: disarmed
	views int
	hook  func()
	fired bool
}

func (d *hookDB) View(f func(tx walletdb.ReadTx) error, reset func()) error {
	err := d.DB.View(f, reset)
	d.mu.Lock()
	run := false
	if d.at > 0 {
		d.views++
		if d.views == d.at {
			run, d.at, d.fired = true, 0, true
		}
	}
	h := d.hook
	d.mu.Unlock()
	if run && h != nil {
		h()
	}
	return err
}

func (d *hookDB) Batch(f func(tx walletdb.ReadWriteTx) error) error {
	if b, ok := d.DB.(walletdb.BatchDB); ok {
		return b.Batch(f)
	}
	return d.DB.Update(f, func() {})
}

func (d *hookDB) arm(at int, h func()) {
	d.mu.Lock()
	d.at, d.views, d.hook, d.fired = at, 0, h, false
	d.mu.Unlock()
}

func (d *hookDB) disarm() bool {
	d.mu.Lock()
	defer d.mu.Unlock()
	d.at, d.hook = 0, nil
	return d.fired
}

var ballastBucket = []byte("verif-ballast")

// bgWriter is what the concurrent writer does: the given (true, verified) filters of
// other blocks are persisted through the real store in `commits` write transactions,
// and `ballast` bytes are written to (and old ballast deleted from) another bucket of
// the same bbolt file, so that pages are freed and re-used and the file grows and is
// re-mapped.
func (w *world) bgWriter(blks []int, commits int, ballast int) {
	u := w.u
	if commits < 1 {
		commits = 1
	}
	per := (len(blks) + commits - 1) / commits
	for c := 0; c < commits; c++ {
		var items []*filterdb.FilterData
		for i := c * per; i < (c+1)*per && i < len(blks); i++ {
			h := blks[i]
			items = append(items, &filterdb.FilterData{Filter: u.truF[h], BlockHash: &u.hashes[h], Type: filterdb.RegularFilter})
		}
		if len(items) > 0 {
			if err := w.fdb.FilterStore.PutFilters(items...); err != nil {
				panic(err)
			}
		}
		if ballast > 0 {
			w.ballastSeq++
			seq := w.ballastSeq
			err := walletdb.Update(w.db, func(tx walletdb.ReadWriteTx) error {
				b, err := tx.CreateTopLevelBucket(ballastBucket)
				if err != nil {
					return err
				}
				if seq > 2 {
					_ = b.Delete([]byte(fmt.Sprintf("b%06d", seq-2)))
				}
				v := make([]byte, ballast/commits+1)
				for i := range v {
					v[i] = byte(seq*31 + i)
				}
				return b.Put([]byte(fmt.Sprintf("b%06d", seq)), v)
			})
			if err != nil {
				panic(err)
			}
		}
	}
}

type resp struct {
	msg  wire.Message
	tok  string
	peer int  // sender (0: the default peer 1)
	good bool // the true filter of the block it names
}

func peerAddr(p int) string {
	if p == 0 {
		p = 1
	}
	return fmt.Sprintf("10.0.0.%d:8333", p)
}

type disp struct {
	cs      *neutrino.ChainService
	u       *universe
	resps   []resp
	cont    bool
	verdict string
	prog    []string
	nq      int
	rg      string
}

func (d *disp) Start() error { return nil }
func (d *disp) Stop() error  { return nil }

func (d *disp) Query(reqs []*query.Request, _ ...query.QueryOption) chan error {
	ch := make(chan error, 1)
	d.nq++
	d.rg = "?"
	if len(reqs) == 1 {
		if m, ok := reqs[0].Req.(*wire.MsgGetCFilters); ok && m.FilterType == wire.GCSFilterRegular {
			if sh, ok := d.u.height[m.StopHash]; ok {
				d.rg = fmt.Sprintf("%d:%d", m.StartHeight, sh)
			} else if sh, ok := d.u.bHeight[m.StopHash]; ok {
				d.rg = fmt.Sprintf("%d:%d", m.StartHeight, sh)
			}
		}
	}
	if len(reqs) >= 1 {
		for _, r := range d.resps {
			p := reqs[0].HandleResp(reqs[0].Req, r.msg, peerAddr(r.peer))
			switch {
			case p.Finished && p.Progressed:
				d.prog = append(d.prog, "f")
			case p.Progressed:
				d.prog = append(d.prog, "p")
			case !p.Finished:
				d.prog = append(d.prog, "n")
			default:
				d.prog = append(d.prog, "x")
			}
			if p.Finished && !d.cont {
				break
			}
		}
	}
	switch d.verdict {
	case "nil":
		ch <- nil
	case "err":
		ch <- errScript
	case "quit":
		d.cs.VerifCloseQuit()
	}
	return ch
}

type world struct {
	quitUsed bool // a "quit" verdict closed the service's quit channel
	hook    *hookStore
	u       *universe
	dir     string
	db      walletdb.DB
	hdb     *hookDB
	ballastSeq int
	fdb     *countDB
	cache   *lru.Cache[neutrino.FilterCacheKey, *neutrino.CacheableFilter]
	cap     uint64
	persist bool
	cs      *neutrino.ChainService
	d       *disp
	fid     map[[32]byte]int
	hid     map[chainhash.Hash]int
	bid     map[chainhash.Hash]int // unknown block hashes
	touched map[int]bool           // heights whose DB entry we read back
	bg      *bgPlan                // concurrent writer of the next get
	bgFired bool                   // ... and whether it ran
	tick    time.Duration
}

func newWorld(r *rand.Rand, cap uint64, persist bool) *world {
	u := getUniverse(r)
	dir := scratch("verif-cfcase")
	db, err := walletdb.Create("bdb", filepath.Join(dir, "f.db"), true, 10*time.Second, false)
	if err != nil {
		panic(err)
	}
	hdb := &hookDB{DB: db}
	fdb, err := filterdb.New(hdb, params)
	if err != nil {
		panic(err)
	}
	w := &world{u: u, dir: dir, db: db, hdb: hdb, fdb: &countDB{FilterStore: fdb}, cap: cap, persist: persist,
		fid: map[[32]byte]int{}, hid: map[chainhash.Hash]int{}, bid: map[chainhash.Hash]int{}, touched: map[int]bool{},
		tick: time.Millisecond}
	caseNo++
	if caseNo%150 == 2 {
		w.tick = 0 // production 500 ms
	}
	for i, h := range u.truH {
		w.hid[h] = i + 1
	}
	for i := forkAt + 1; i <= uniBlocks; i++ {
		w.hid[u.bH[i]] = 300000 + i + 1 // filter headers of branch B
	}
	w.boot()
	return w
}

// boot (re)creates the in-memory parts: cache and ChainService.
func (w *world) boot() {
	if w.cs != nil {
		w.cs.VerifFlushFilters()
		w.cs.VerifCloseQuit()
	}
	w.cache = lru.NewCache[neutrino.FilterCacheKey, *neutrino.CacheableFilter](w.cap)
	w.d = &disp{u: w.u}
	w.hook = &hookStore{BlockHeaderStore: w.u.bs}
	w.cs = neutrino.VerifNewQueryService(neutrino.VerifQueryParts{
		Params: params, BlockHeaders: w.hook, RegFilterHeaders: w.u.fs, FilterDB: w.fdb, FilterCache: w.cache,
		WorkManager: w.d, PersistToDisk: w.persist, BatchWriterTick: w.tick,
	})
	w.d.cs = w.cs
}

func (w *world) close() {
	w.cs.VerifFlushFilters()
	w.cs.VerifCloseQuit()
	w.db.Close()
	os.RemoveAll(w.dir)
}

func (w *world) hdrID(h chainhash.Hash) int {
	if id, ok := w.hid[h]; ok {
		return id
	}
	id := 200001 + len(w.hid)
	w.hid[h] = id
	return id
}

func (w *world) filterID(nbytes []byte) int {
	k := sha256.Sum256(nbytes)
	if id, ok := w.fid[k]; ok {
		return id
	}
	id := 1 + len(w.fid)
	w.fid[k] = id
	return id
}

func (w *world) blkID(h chainhash.Hash) int {
	if i, ok := w.u.height[h]; ok {
		return i
	}
	if i, ok := w.u.bHeight[h]; ok {
		return altBase + i
	}
	if id, ok := w.bid[h]; ok {
		return id
	}
	id := 100001 + len(w.bid)
	w.bid[h] = id
	return id
}

// committedFor returns the committed (previous header, header) pair of a block:
// for a block of the chain the stores currently hold, what the real filter-header
// store returns by height; for a block that was reorganised away, what was
// committed for it while it was on the chain.
func (w *world) committedFor(blk int) (prev, cur chainhash.Hash, ok bool) {
	u := w.u
	if blk > altBase { // branch B
		h := blk - altBase
		if h <= forkAt || h > uniBlocks {
			return prev, cur, false
		}
		prev = u.truH[forkAt]
		if h-1 > forkAt {
			prev = u.bH[h-1]
		}
		return prev, u.bH[h], true
	}
	height := blk
	if u.onB && height > forkAt && height <= uniBlocks {
		return u.truH[height-1], u.truH[height], true
	}
	if height < 0 || height > u.ftip {
		return prev, cur, false
	}
	if height > 0 {
		p, err := u.fs.FetchHeaderByHeight(uint32(height - 1))
		if err != nil {
			return prev, cur, false
		}
		prev = *p
	}
	c, err := u.fs.FetchHeaderByHeight(uint32(height))
	if err != nil {
		return prev, cur, false
	}
	return prev, *c, true
}

// verified: this driver's own check that a filter hashes with the committed
// previous header to the committed header of THAT block.
func (w *world) verified(blk int, f *gcs.Filter) bool {
	if f == nil {
		return false
	}
	prev, cur, ok := w.committedFor(blk)
	if !ok {
		return false
	}
	nb, err := f.NBytes()
	if err != nil {
		return false
	}
	cp, err := gcs.FromNBytes(builder.DefaultP, builder.DefaultM, nb)
	if err != nil {
		return false
	}
	got, err := builder.MakeHeaderForFilter(cp, prev)
	return err == nil && got == cur
}

// onChain: the real block-header store knows the hash (it is on the chain the
// stores hold now).
func (w *world) onChain(h chainhash.Hash) bool {
	_, _, err := w.u.bs.FetchHeader(&h)
	return err == nil
}

// otherBlocksFilter: the bytes are the ground-truth filter of the block that sits
// at the same height on the other branch, and not that of the block itself.
func (w *world) otherBlocksFilter(blk int, f *gcs.Filter) bool {
	u := w.u
	h := blk
	if blk > altBase {
		h = blk - altBase
	}
	if f == nil || h <= forkAt || h > uniBlocks {
		return false
	}
	nb := nbytes(f)
	a, b := nbytes(u.truF[h]), nbytes(u.bF[h])
	if blk > altBase {
		a, b = b, a
	}
	return string(nb) == string(b) && string(nb) != string(a)
}

func b01(b bool) string {
	if b {
		return "1"
	}
	return "0"
}

// mkCF builds a cfilter message and its token.
func (w *world) mkCF(t *tr.W, ftype wire.FilterType, bh chainhash.Hash, data []byte, kind string) resp {
	t.Hit("cf.resp." + kind)
	blk := w.blkID(bh)
	dec, fid, prev, hdr := false, 0, 0, 0
	if f, err := gcs.FromNBytes(builder.DefaultP, builder.DefaultM, data); err == nil {
		dec = true
		nb, _ := f.NBytes()
		fid = w.filterID(nb)
		if blk > altBase {
			if p, _, ok := w.committedFor(blk); ok {
				if x, err := builder.MakeHeaderForFilter(f, p); err == nil {
					prev, hdr = w.hdrID(p), w.hdrID(x)
				}
			}
		} else if blk >= 1 && blk <= w.u.ftip+1 && blk-1 < len(w.u.cur) {
			p := w.u.cur[blk-1]
			if x, err := builder.MakeHeaderForFilter(f, p); err == nil {
				prev, hdr = w.hdrID(p), w.hdrID(x)
			}
		}
	}
	w.touched[blk] = true
	m := wire.NewMsgCFilter(ftype, &bh, data)
	return resp{good: kind == "good", msg: m, tok: fmt.Sprintf("c:%s:%d:%s:%d:%d:%d:%d", b01(ftype == wire.GCSFilterRegular), blk, b01(dec), fid, len(data), prev, hdr)}
}

func nbytes(f *gcs.Filter) []byte {
	b, err := f.NBytes()
	if err != nil {
		panic(err)
	}
	return b
}

var kinds = []string{"good", "good", "good", "good", "good", "good", "flip", "trunc", "empty", "badvarint", "noncanon", "hugeN",
	"other", "alt", "wrongtype", "unsolicited", "outofrange", "nonmsg", "extend", "shift", "shift"}

func (w *world) mkResp(t *tr.W, r *rand.Rand, h int, lo, hi int) resp {
	u := w.u
	if h < 1 {
		h = 1
	}
	if h > uniBlocks {
		h = uniBlocks
	}
	kind := kinds[r.Intn(len(kinds))]
	good := nbytes(u.truF[h])
	switch kind {
	case "good":
		return w.mkCF(t, wire.GCSFilterRegular, u.hashes[h], good, kind)
	case "flip":
		d := append([]byte{}, good...)
		d[r.Intn(len(d))] ^= 1 << uint(r.Intn(8))
		return w.mkCF(t, wire.GCSFilterRegular, u.hashes[h], d, kind)
	case "trunc":
		d := append([]byte{}, good...)
		if len(d) > 1 {
			d = d[:len(d)-1-r.Intn(len(d)-1)]
		}
		return w.mkCF(t, wire.GCSFilterRegular, u.hashes[h], d, kind)
	case "extend":
		d := append(append([]byte{}, good...), byte(r.Intn(256)))
		return w.mkCF(t, wire.GCSFilterRegular, u.hashes[h], d, kind)
	case "empty":
		return w.mkCF(t, wire.GCSFilterRegular, u.hashes[h], nil, kind)
	case "badvarint":
		return w.mkCF(t, wire.GCSFilterRegular, u.hashes[h], []byte{0xfd}, kind)
	case "noncanon":
		return w.mkCF(t, wire.GCSFilterRegular, u.hashes[h], append([]byte{0xfd, 0x01, 0x00}, good[1:]...), kind)
	case "hugeN":
		return w.mkCF(t, wire.GCSFilterRegular, u.hashes[h], []byte{0xff, 0, 0, 0, 0, 1, 0, 0, 0}, kind)
	case "shift":
		// the genuine filter of a block a few heights away, labelled as block h
		j := h - 1 - r.Intn(6)
		if r.Intn(4) == 0 {
			j = h + 1 + r.Intn(6)
		}
		if j < 1 {
			j = 1
		}
		if j > uniBlocks {
			j = uniBlocks
		}
		return w.mkCF(t, wire.GCSFilterRegular, u.hashes[h], nbytes(u.truF[j]), kind)
	case "other":
		j := 1 + r.Intn(uniBlocks)
		return w.mkCF(t, wire.GCSFilterRegular, u.hashes[h], nbytes(u.truF[j]), kind)
	case "alt":
		return w.mkCF(t, wire.GCSFilterRegular, u.hashes[h], nbytes(u.altF[h]), kind)
	case "wrongtype":
		return w.mkCF(t, wire.FilterType(1+r.Intn(3)), u.hashes[h], good, kind)
	case "unsolicited":
		var bh chainhash.Hash
		r.Read(bh[:])
		return w.mkCF(t, wire.GCSFilterRegular, bh, good, kind)
	case "outofrange":
		j := lo - 1 - r.Intn(3)
		if r.Intn(2) == 0 {
			j = hi + 1 + r.Intn(3)
		}
		if j < 0 {
			j = 0
		}
		if j > uniBlocks {
			j = uniBlocks
		}
		if j == 0 {
			gf, _ := builder.BuildBasicFilter(params.GenesisBlock, nil)
			return w.mkCF(t, wire.GCSFilterRegular, u.hashes[0], nbytes(gf), kind)
		}
		return w.mkCF(t, wire.GCSFilterRegular, u.hashes[j], nbytes(u.truF[j]), kind)
	}
	t.Hit("cf.resp.nonmsg")
	var m wire.Message = wire.NewMsgCFHeaders()
	if r.Intn(2) == 0 {
		m = u.blocks[h]
	}
	return resp{msg: m, tok: "o"}
}

// bgPlan: a writer that commits right after the at-th read transaction of the filter
// database within one GetCFilter call has been closed.
type bgPlan struct {
	at      int
	blks    []int // heights whose true filters it persists
	commits int
	ballast int
}

func (w *world) bgTok(b *bgPlan) string {
	var ws []string
	for _, h := range b.blks {
		ws = append(ws, fmt.Sprintf("%d:%d", h, w.filterID(nbytes(w.u.truF[h]))))
	}
	return fmt.Sprintf("bg %d %d %d [%s]", b.at, b.commits, b.ballast, strings.Join(ws, " "))
}

// allKeys lists every key of the regular-filter bucket, read from the bbolt file itself.
func (w *world) allKeys() []chainhash.Hash {
	var ks []chainhash.Hash
	_ = walletdb.View(w.db, func(tx walletdb.ReadTx) error {
		b := tx.ReadBucket([]byte("filter-store"))
		if b == nil {
			return nil
		}
		rb := b.NestedReadBucket([]byte("regular"))
		if rb == nil {
			return nil
		}
		return rb.ForEach(func(k, _ []byte) error {
			var h chainhash.Hash
			if len(k) == len(h) {
				copy(h[:], k)
				ks = append(ks, h)
			}
			return nil
		})
	})
	return ks
}

type callRes struct {
	f   *gcs.Filter
	err error
}

func (w *world) dump() (string, string) {
	var ents []string
	w.cache.RangeFILO(func(k neutrino.FilterCacheKey, v *neutrino.CacheableFilter) bool {
		blk := w.blkID(k.BlockHash)
		sz, _ := v.Size()
		ents = append(ents, fmt.Sprintf("%d:%d:%d:%s", blk, w.filterID(nbytes(v.Filter)), sz, b01(w.verified(blk, v.Filter))))
		return true
	})
	// the WHOLE database: every key the bbolt file holds, not only the blocks this case asked for
	for _, k := range w.allKeys() {
		w.touched[w.blkID(k)] = true
	}
	var hs []int
	for h := range w.touched {
		hs = append(hs, h)
	}
	sort.Ints(hs)
	var dbs []string
	for _, h := range hs {
		var bh chainhash.Hash
		if h >= 0 && h <= uniBlocks {
			bh = w.u.hashes[h]
		} else if h > altBase && h-altBase <= uniBlocks {
			bh = w.u.bHashes[h-altBase]
		} else {
			for k, id := range w.bid {
				if id == h {
					bh = k
				}
			}
		}
		f, err := w.fdb.FetchFilter(&bh, filterdb.RegularFilter)
		if err == filterdb.ErrFilterNotFound || (err == nil && f == nil) {
			continue
		}
		if err != nil {
			dbs = append(dbs, fmt.Sprintf("%d:ERR:0", h))
			continue
		}
		if h == 0 {
			continue // genesis filter, put there by filterdb.New
		}
		dbs = append(dbs, fmt.Sprintf("%d:%d:%s", h, w.filterID(nbytes(f)), b01(w.verified(h, f))))
	}
	return "[" + strings.Join(ents, " ") + "]", "[" + strings.Join(dbs, " ") + "]"
}

func (w *world) get(t *tr.W, target int, th chainhash.Hash, regular bool, batch string, maxBatch int64, cont bool, verdict string, resps []resp) string {
	d := w.d
	d.resps, d.cont, d.verdict, d.prog, d.nq, d.rg = resps, cont, verdict, nil, 0, "-"
	w.quitUsed = w.quitUsed || verdict == "quit"
	var opts []neutrino.QueryOption
	switch batch {
	case "f":
		opts = append(opts, neutrino.OptimisticBatch())
	case "r":
		opts = append(opts, neutrino.OptimisticReverseBatch())
	}
	if maxBatch != 0 {
		opts = append(opts, neutrino.MaxBatchSize(maxBatch))
	}
	ft := wire.GCSFilterRegular
	if !regular {
		ft = wire.FilterType(1)
	}
	w.touched[target] = true
	before := w.fdb.count()
	w.fdb.takeLog()
	w.bgFired = false
	if bg := w.bg; bg != nil {
		w.hdb.arm(bg.at, func() { w.bgWriter(bg.blks, bg.commits, bg.ballast) })
		defer func() { w.bg = nil }()
	}
	ch := make(chan callRes, 1)
	go func() {
		// a read of database memory after its transaction was closed may hit a page that
		// has been unmapped: make that a panic of this goroutine, not the death of the process
		debug.SetPanicOnFault(true)
		defer func() {
			if e := recover(); e != nil {
				fmt.Fprintln(os.Stderr, "PANIC in GetCFilter:", e); ch <- callRes{err: fmt.Errorf("PANIC %v", e)}
			}
		}()
		f, err := w.cs.GetCFilter(th, ft, opts...)
		ch <- callRes{f, err}
	}()
	var res string
	select {
	case cr := <-ch:
		switch {
		case cr.err == nil && cr.f != nil:
			// v: the requested hash is on the chain the stores hold and the filter hash-chains to the
			// committed header of THAT block; 4th field: it is the true filter of the other branch's block
			res = fmt.Sprintf("ret:%d:%s:%s", w.filterID(nbytes(cr.f)), b01((target > uniBlocks || w.onChain(th)) && w.verified(target, cr.f)),
				b01(w.otherBlocksFilter(target, cr.f)))
		case cr.err == nil:
			res = "err:nilnil"
		case cr.err == errScript:
			res = "err:query"
		case cr.err == neutrino.ErrShuttingDown:
			res = "err:quit"
		case cr.err == neutrino.ErrFilterFetchFailed:
			res = "err:fetchfailed"
		case strings.HasPrefix(cr.err.Error(), "PANIC"):
			res = "PANIC"
		case strings.Contains(cr.err.Error(), "unknown filter type"):
			res = "err:type"
		case strings.Contains(cr.err.Error(), "unable to get header for start") ||
			strings.Contains(cr.err.Error(), "block headers, got") || strings.Contains(cr.err.Error(), "ancestors for stopHash") ||
			strings.Contains(cr.err.Error(), "is not committed yet"):
			res = "err:prepare"
		default:
			res = "err:other(" + strings.ReplaceAll(cr.err.Error(), " ", "_") + ")"
		}
	case <-time.After(10 * time.Second):
		w.hdb.disarm()
		return "HANG"
	}
	w.bgFired = w.hdb.disarm()
	if strings.HasPrefix(res, "ret:") {
		t.Hit("cf.result.ret")
	} else {
		t.Hit("cf.result." + res)
	}
	// wait (bounded) until the batch writer has written what the handler queued
	if w.persist {
		want := 0
		for _, p := range d.prog {
			if p == "p" || p == "f" {
				want++
			}
		}
		deadline := time.Now().Add(4 * time.Second)
		for w.fdb.count() < before+want && time.Now().Before(deadline) {
			time.Sleep(200 * time.Microsecond)
		}
		if w.fdb.count() < before+want {
			res += ":FLUSH-TIMEOUT"
		}
	}
	cache, db := w.dump()
	// the put log of this call: what was handed to FilterDB.PutFilters, in order
	var puts []string
	for _, pr := range w.fdb.takeLog() {
		puts = append(puts, fmt.Sprintf("%d:%d", w.blkID(pr.hash), w.filterID(pr.nbytes)))
	}
	return fmt.Sprintf("%s prog [%s] rg %s cache %s db %s puts [%s]", res, strings.Join(d.prog, " "), d.rg, cache, db, strings.Join(puts, " "))
}

// expected range, only to aim the generated responses (not an oracle)
func aim(h, best int, batch string, maxBatch int64) (int, int) {
	bs := int64(wire.MaxGetCFiltersReqRange)
	if maxBatch > 0 && maxBatch < bs {
		bs = maxBatch
	}
	lo, hi := int64(h), int64(h)
	switch batch {
	case "f":
		hi = lo + bs - 1
	case "r":
		lo = hi - bs + 1
	}
	if lo < 1 {
		lo = 1
	}
	if hi > int64(best) {
		hi = int64(best)
	}
	return int(lo), int(hi)
}

func runCase(t *tr.W, r *rand.Rand, mode string) {
	cap := uint64(30 + r.Intn(300))
	if r.Intn(4) == 0 {
		cap = uint64(8 + r.Intn(20)) // hardly anything fits
	}
	persist := r.Intn(5) > 1 // every write is a bbolt Batch (10 ms coalescing delay)
	w := newWorld(r, cap, persist)
	u := w.u
	defer func() {
		w.close()
		if u.onB {
			u.restoreA()
		}
		if u.ftip != uniBlocks || mode == "recommit" {
			u.setFilterHeaders(uniBlocks-40, u.truH[uniBlocks-40:])
		}
	}()
	// a lagging filter tip in some cases
	if mode == "recommit" && r.Intn(3) == 0 {
		lag := 1 + r.Intn(3)
		u.setFilterHeaders(uniBlocks-lag+1, nil)
	}
	t.Case("cf cap %d persist %s tip %d ftip %d maxrange %d", cap, b01(persist), uniBlocks, u.ftip, wire.MaxGetCFiltersReqRange)
	nops := 3 + r.Intn(6)
	// region of interest
	base := 1 + r.Intn(uniBlocks)
	switch r.Intn(4) {
	case 0:
		base = 1 + r.Intn(4) // block 1 boundary
	case 1:
		base = uniBlocks - r.Intn(4) // the tip
	}
	if mode == "recommit" {
		base = uniBlocks - 3 - r.Intn(20)
	}
	if mode == "reorg" {
		base = uniBlocks - 2 - r.Intn(12)
		defer w.reorgCall(t, r)
	}
	for j := 0; j < nops; j++ {
		if mode == "recommit" && j > 0 && r.Intn(3) == 0 {
			if r.Intn(4) == 0 {
				w.boot()
				t.Op("restart", "ok")
				t.Hit("cf.op.restart")
				continue
			}
			// commit other headers from height h on: the alternative filters'
			// chain, or the true chain again
			h := base - 2 + r.Intn(5)
			if h < 1 {
				h = 1
			}
			if h > u.ftip+1 {
				h = u.ftip + 1 // headers are committed consecutively
			}
			n := u.ftip - h + 1 - r.Intn(3) + r.Intn(2)
			if h+n-1 > uniBlocks {
				n = uniBlocks - h + 1
			}
			if n < 0 {
				n = 0
			}
			var hdrs []chainhash.Hash
			var ids []string
			prev := u.cur[h-1]
			useAlt := r.Intn(3) > 0
			for i := 0; i < n; i++ {
				f := u.truF[h+i]
				if useAlt && (i == 0 || r.Intn(2) == 0) {
					f = u.altF[h+i]
				}
				x, err := builder.MakeHeaderForFilter(f, prev)
				if err != nil {
					panic(err)
				}
				hdrs = append(hdrs, x)
				ids = append(ids, strconv.Itoa(w.hdrID(x)))
				prev = x
			}
			u.setFilterHeaders(h, hdrs)
			t.Op(fmt.Sprintf("recommit %d [%s]", h, strings.Join(ids, " ")), "ok")
			t.Hit("cf.op.recommit")
			continue
		}
		target := base + r.Intn(5) - 2
		if target < 1 {
			target = 1 // the genesis filter is put into the database by filterdb.New
		}
		if target > uniBlocks {
			target = uniBlocks
		}
		if u.ftip < uniBlocks && r.Intn(8) == 0 {
			// a stored block whose filter header is not committed yet: must fail at preparation
			target = u.ftip + 1 + r.Intn(uniBlocks-u.ftip)
			t.Hit("cf.target.above-ftip")
		}
		known := true
		var th chainhash.Hash
		if r.Intn(25) == 0 {
			r.Read(th[:])
			target = w.blkID(th)
			known = false
		} else {
			th = u.hashes[target]
		}
		regular := r.Intn(30) > 0
		batch := []string{"n", "n", "f", "r"}[r.Intn(4)]
		var maxBatch int64
		switch r.Intn(24) {
		case 0, 1, 2:
			maxBatch = int64(1 + r.Intn(8))
		case 3:
			maxBatch = int64(wire.MaxGetCFiltersReqRange) - 1 + int64(r.Intn(3)) // limit ±1
		case 4:
			maxBatch = -int64(r.Intn(3))
		case 5:
			maxBatch = 0
		default:
			maxBatch = int64(2 + r.Intn(5))
		}
		if mode == "big" && j == 0 {
			batch = []string{"f", "r"}[r.Intn(2)]
			maxBatch = []int64{0, 999, 1000, 1001, 5000}[r.Intn(5)]
			if batch == "f" {
				target = 1 + r.Intn(uniBlocks-1000+3)
			} else {
				target = 998 + r.Intn(uniBlocks-998)
			}
			th, known = u.hashes[target], true
		}
		cont := r.Intn(6) == 0
		verdict := "nil"
		switch x := r.Intn(14); {
		case x == 0:
			verdict = "err"
		case x == 1 && j == nops-1:
			verdict = "quit"
		}
		best := u.ftip
		lo, hi := target, target
		if known {
			lo, hi = aim(target, best, batch, maxBatch)
		}
		// Overlap with what is already held: before a batch, fetch (honestly, one by one) the filters
		// of one or two blocks of the coming range — at its front, in the middle, at its end —
		// so that the batch runs over a range that is partly cached.
		cachedAt := 0
		if known && regular && batch != "n" && hi > lo && hi-lo <= 24 && r.Intn(2) == 0 {
			var spots []int
			for _, h := range []int{lo, lo + 1, (lo + hi) / 2, hi - 1, hi} {
				if h != target && h >= lo && h <= hi && h >= 1 {
					spots = append(spots, h)
				}
			}
			for n := 1 + r.Intn(2); n > 0 && len(spots) > 0; n-- {
				h := spots[r.Intn(len(spots))]
				pre := []resp{w.mkCF(t, wire.GCSFilterRegular, u.hashes[h], nbytes(u.truF[h]), "good")}
				obs := w.get(t, h, u.hashes[h], true, "n", 0, false, "nil", pre)
				t.Op(fmt.Sprintf("get %d 1 n 0 0 nil [%s]", h, pre[0].tok), obs)
				t.Hit("cf.precache." + map[bool]string{true: "front", false: "inner"}[h == lo] + map[bool]string{true: ".end", false: ""}[h == hi])
				if strings.HasPrefix(obs, "HANG") || strings.HasPrefix(obs, "PANIC") {
					return
				}
				cachedAt = h
			}
		}
		var resps []resp
		style := r.Intn(10)
		switch {
		case !known || hi < lo:
			for n := r.Intn(4); n > 0; n-- {
				resps = append(resps, w.mkResp(t, r, 1+r.Intn(uniBlocks), lo, hi))
			}
		case style < 4:
			// every height of the range once, honest, in order / reversed / shuffled, maybe with omissions
			var hs []int
			for h := lo; h <= hi; h++ {
				if r.Intn(30) > 0 || hi-lo > 50 {
					hs = append(hs, h)
				}
			}
			switch r.Intn(3) {
			case 1:
				for a, b := 0, len(hs)-1; a < b; a, b = a+1, b-1 {
					hs[a], hs[b] = hs[b], hs[a]
				}
			case 2:
				r.Shuffle(len(hs), func(a, b int) { hs[a], hs[b] = hs[b], hs[a] })
			}
			for _, h := range hs {
				resps = append(resps, w.mkCF(t, wire.GCSFilterRegular, u.hashes[h], nbytes(u.truF[h]), "good"))
				if r.Intn(10) == 0 && hi-lo < 50 {
					resps = append(resps, w.mkResp(t, r, h, lo, hi))
				}
			}
		case style == 4 && hi > lo && hi-lo <= 60:
			// the whole range relabelled: block h is answered with the genuine filter of block h-k
			// (or h+k), possibly followed by the honest answers
			k := 1 + r.Intn(6)
			if cachedAt > 0 && cachedAt >= lo && r.Intn(2) == 0 {
				k = cachedAt - lo + 1 // as many positions as filters that need not be fetched again
			}
			if r.Intn(5) == 0 {
				k = -k
			}
			for h := lo; h <= hi; h++ {
				j := h - k
				if j < 1 || j > uniBlocks {
					continue
				}
				resps = append(resps, w.mkCF(t, wire.GCSFilterRegular, u.hashes[h], nbytes(u.truF[j]), "relabelled"))
			}
			if r.Intn(2) == 0 {
				for h := lo; h <= hi; h++ {
					resps = append(resps, w.mkCF(t, wire.GCSFilterRegular, u.hashes[h], nbytes(u.truF[h]), "good"))
				}
			}
		default:
			n := r.Intn(2 * (hi - lo + 2))
			if n > 14 {
				n = 14
			}
			for ; n > 0; n-- {
				h := lo + r.Intn(hi-lo+1)
				if r.Intn(3) == 0 {
					h = target
				}
				rp := w.mkResp(t, r, h, lo, hi)
				resps = append(resps, rp)
				if r.Intn(8) == 0 {
					resps = append(resps, rp)
					t.Hit("cf.resp.duplicate")
				}
			}
		}
		// Duplicated VALID responses in a batch: the same peer repeating itself, or the late answer of a
		// peer the work manager gave up on next to the answer of the peer the request was re-sent to;
		// right after the original or anywhere later (before or after the target's filter arrived).
		multiPeer := r.Intn(3) == 0
		if multiPeer {
			for i := range resps {
				resps[i].peer = 1 + r.Intn(3)
			}
		}
		if known && batch != "n" && hi > lo && len(resps) > 0 && len(resps) < 400 && r.Intn(2) == 0 {
			for n := 1 + r.Intn(3); n > 0; n-- {
				var goods []int
				for i, rp := range resps {
					if rp.good {
						goods = append(goods, i)
					}
				}
				if len(goods) == 0 {
					break
				}
				i := goods[r.Intn(len(goods))]
				dup := resps[i]
				who := "same-peer"
				if r.Intn(2) == 0 {
					dup.peer = 1 + (dup.peer+r.Intn(2))%3 + 1
					who = "other-peer"
				}
				at := i + 1
				if r.Intn(3) > 0 {
					at = i + 1 + r.Intn(len(resps)-i)
				}
				resps = append(resps[:at], append([]resp{dup}, resps[at:]...)...)
				when := "before-target"
				for _, rp := range resps[:at] {
					if rp.good && strings.HasPrefix(rp.tok, fmt.Sprintf("c:1:%d:", target)) {
						when = "after-target"
					}
				}
				t.Hit("cf.dup.valid." + who + "." + when)
			}
		}
		toks := make([]string, len(resps))
		for i, rp := range resps {
			toks[i] = rp.tok
			if rp.tok != "o" {
				p := rp.peer
				if p == 0 {
					p = 1
				}
				toks[i] = fmt.Sprintf("%s:%d", rp.tok, p)
			}
		}
		t.Hit("cf.batch." + batch)
		obs := w.get(t, target, th, regular, batch, maxBatch, cont, verdict, resps)
		t.Op(fmt.Sprintf("get %d %s %s %d %s %s [%s]", target, b01(regular), batch, maxBatch, b01(cont), verdict, strings.Join(toks, " ")), obs)
		if strings.HasPrefix(obs, "HANG") || strings.HasPrefix(obs, "PANIC") {
			return
		}
	}
}

// reorgCall is the last call of a "reorg" case: between the by-hash lookup of the
// requested block and the by-height lookups of prepareCFiltersQuery the REAL
// stores are reorganised onto branch B (hookStore).  The peers then serve the
// new chain (and, for contrast, the old one).
func (w *world) reorgCall(t *tr.W, r *rand.Rand) {
	u := w.u
	if u.onB || u.ftip != uniBlocks || w.quitUsed {
		return
	}
	nb := uniBlocks - forkAt - r.Intn(3) // length of branch B above the fork
	lag := 0
	if r.Intn(4) == 0 {
		lag = 1
	}
	target := forkAt + 1 + r.Intn(nb)
	switch r.Intn(6) {
	case 0:
		target = forkAt - r.Intn(2) // below the fork: the same block on both branches
	case 1:
		target = uniBlocks - r.Intn(2) // maybe above the new tip
	}
	th := u.hashes[target]
	batch := []string{"n", "n", "f", "r"}[r.Intn(4)]
	maxBatch := int64(1 + r.Intn(6))
	cont := r.Intn(6) == 0
	verdict := "nil"
	if r.Intn(10) == 0 {
		verdict = "err"
	}
	lo, hi := aim(target, forkAt+nb-lag, batch, maxBatch)
	var resps []resp
	bOf := func(h int) resp {
		if h > forkAt {
			return w.mkCF(t, wire.GCSFilterRegular, u.bHashes[h], nbytes(u.bF[h]), "good")
		}
		return w.mkCF(t, wire.GCSFilterRegular, u.hashes[h], nbytes(u.truF[h]), "good")
	}
	aOf := func(h int) resp { return w.mkCF(t, wire.GCSFilterRegular, u.hashes[h], nbytes(u.truF[h]), "oldbranch") }
	for h := lo; h <= hi && h <= uniBlocks; h++ {
		switch r.Intn(6) {
		case 0:
			resps = append(resps, aOf(h), bOf(h))
		case 1:
			// branch B's block answered with branch A's filter and the other way round
			if h > forkAt {
				resps = append(resps, w.mkCF(t, wire.GCSFilterRegular, u.bHashes[h], nbytes(u.truF[h]), "crossed"),
					w.mkCF(t, wire.GCSFilterRegular, u.hashes[h], nbytes(u.bF[h]), "crossed"))
			}
			resps = append(resps, bOf(h))
		case 2:
			if r.Intn(2) == 0 {
				resps = append(resps, w.mkResp(t, r, h, lo, hi))
			}
			resps = append(resps, bOf(h))
		default:
			resps = append(resps, bOf(h))
		}
	}
	if r.Intn(3) == 0 {
		r.Shuffle(len(resps), func(a, b int) { resps[a], resps[b] = resps[b], resps[a] })
	}
	toks := make([]string, len(resps))
	for i, rp := range resps {
		toks[i] = rp.tok
	}
	fired := false
	w.hook.onFetch = func() { fired = true; u.reorgToB(nb, lag) }
	obs := w.get(t, target, th, true, batch, maxBatch, cont, verdict, resps)
	w.hook.onFetch = nil
	if fired {
		t.Hit("cf.op.reorg-during-prepare")
		t.Op(fmt.Sprintf("getreorg %d %d %d %d 1 %s %d %s %s [%s]", forkAt, forkAt+nb, forkAt+nb-lag, target, batch, maxBatch,
			b01(cont), verdict, strings.Join(toks, " ")), obs)
	} else {
		// answered from the cache or the database: prepareCFiltersQuery never ran
		t.Op(fmt.Sprintf("get %d 1 %s %d %s %s [%s]", target, batch, maxBatch, b01(cont), verdict, strings.Join(toks, " ")), obs)
	}
}

// curGood returns the filter of block h that matches the filter headers committed
// NOW (the true one, or the alternative one after a re-commit), nil if neither does.
func (w *world) curGood(h int) *gcs.Filter {
	u := w.u
	if h < 1 || h > u.ftip || h >= len(u.cur) {
		return nil
	}
	for _, f := range []*gcs.Filter{u.truF[h], u.altF[h]} {
		if x, err := builder.MakeHeaderForFilter(f, u.cur[h-1]); err == nil && x == u.cur[h] {
			return f
		}
	}
	return nil
}

// honestGet issues one GetCFilter call whose peers answer every block of the range
// honestly with respect to the headers committed now (nothing is sent when the call is
// served from the cache or the database: the dispatcher is not reached).
func (w *world) honestGet(t *tr.W, target int, batch string, maxBatch int64, drop func(h int) bool, verdict string) string {
	u := w.u
	lo, hi := aim(target, u.ftip, batch, maxBatch)
	var resps []resp
	var toks []string
	for h := lo; h <= hi; h++ {
		f := w.curGood(h)
		if f == nil || (drop != nil && drop(h)) {
			continue
		}
		rp := w.mkCF(t, wire.GCSFilterRegular, u.hashes[h], nbytes(f), "good")
		resps = append(resps, rp)
		toks = append(toks, rp.tok+":1")
	}
	bg := w.bg
	obs := w.get(t, target, u.hashes[target], true, batch, maxBatch, false, verdict, resps)
	op := fmt.Sprintf("get %d 1 %s %d 0 %s [%s]", target, batch, maxBatch, verdict, strings.Join(toks, " "))
	if bg != nil && w.bgFired {
		op += " " + w.bgTok(bg)
		t.Hit("cf.db.writer-after-read-tx")
	}
	t.Op(op, obs)
	if strings.Contains(obs, " rg - ") && strings.HasPrefix(obs, "ret:") {
		t.Hit("cf.db.served-without-query." + batch)
	}
	return obs
}

// runDBHist: scripted histories around the filter DATABASE (and the cache in front of
// it).  The database is filled with the verified filters of a NON-contiguous set of
// blocks (single fetches, short batches, a batch that was given up half way), the
// service is restarted (cold cache), and then
//   - variant 0: a forward (optimistic) batch call is served from the database and the
//     caller goes on to ask for the following blocks, gap or not;
//   - variant 1: calls served from the database while a concurrent writer commits (several
//     write transactions, pages freed and re-used, file grown and re-mapped) between the
//     end of the read transaction and the use of what it read;
//   - variant 2: as 0, after the filter headers of the following blocks were re-committed.
// After every call the whole cache and the whole database are judged against the
// headers committed at that moment.
func runDBHist(t *tr.W, r *rand.Rand, variant int) {
	cap := uint64(3000 + r.Intn(3000))
	if r.Intn(5) == 0 {
		cap = uint64(40 + r.Intn(60))
	}
	w := newWorld(r, cap, true)
	u := w.u
	recommitted := false
	defer func() {
		w.close()
		if recommitted || u.ftip != uniBlocks {
			u.setFilterHeaders(uniBlocks-40, u.truH[uniBlocks-40:])
		}
	}()
	t.Case("cf cap %d persist 1 tip %d ftip %d maxrange %d", cap, uniBlocks, u.ftip, wire.MaxGetCFiltersReqRange)
	t.Hit(fmt.Sprintf("cf.dbhist.variant%d", variant))
	span := 6 + r.Intn(9)
	base := 2 + r.Intn(uniBlocks-span-60)
	if variant == 2 || r.Intn(4) == 0 {
		base = uniBlocks - span - 1 - r.Intn(20) // in reach of a re-commit / near the tip
	}
	bad := func(obs string) bool { return strings.HasPrefix(obs, "HANG") || strings.HasPrefix(obs, "PANIC") }
	// which blocks of [base, base+span] get persisted: base always, a gap among the next three on purpose
	present := map[int]bool{base: true}
	for h := base + 1; h <= base+span; h++ {
		present[h] = r.Intn(3) > 0
	}
	gapAt := base + 1 + r.Intn(3)
	present[gapAt] = false
	present[gapAt+1] = true
	if r.Intn(3) == 0 {
		present[gapAt+2] = true
	}
	// phase A: fill the database
	for h := base; h <= base+span; h++ {
		if !present[h] {
			continue
		}
		run := 1
		for present[h+run] && h+run <= base+span {
			run++
		}
		switch {
		case run >= 2 && r.Intn(2) == 0:
			// one forward batch over the contiguous run
			if bad(w.honestGet(t, h, "f", int64(run), nil, "nil")) {
				return
			}
			h += run - 1
		case r.Intn(5) == 0 && !present[h+1] && !present[h+2] && h+2 <= base+span:
			// a batch that was given up: only its first block arrives, the dispatcher fails
			if bad(w.honestGet(t, h, "f", 3, func(x int) bool { return x != h }, "err")) {
				return
			}
			t.Hit("cf.dbhist.aborted-batch")
		default:
			if bad(w.honestGet(t, h, "n", 0, nil, "nil")) {
				return
			}
		}
	}
	w.boot()
	t.Op("restart", "ok")
	t.Hit("cf.op.restart")
	others := func(n int) []int {
		var hs []int
		for len(hs) < n {
			h := 1 + r.Intn(uniBlocks)
			if r.Intn(3) == 0 {
				h = base + r.Intn(span+1) // also the gaps of the span itself
			}
			if h == 0 || present[h] {
				continue
			}
			hs = append(hs, h)
		}
		return hs
	}
	switch variant {
	case 1:
		for n := 2 + r.Intn(4); n > 0; n-- {
			var cands []int
			for h := range present {
				if present[h] && h <= base+span {
					cands = append(cands, h)
				}
			}
			sort.Ints(cands)
			h := cands[r.Intn(len(cands))]
			bg := &bgPlan{at: 1, commits: 2 + r.Intn(3), blks: others(1 + r.Intn(8))}
			switch r.Intn(4) {
			case 0:
				bg.ballast = 40000 + r.Intn(400000) // the file grows and is re-mapped
				t.Hit("cf.dbhist.writer.ballast-remap")
			case 1:
				bg.blks = others(60 + r.Intn(120)) // many PutFilters: the bucket itself is split and moved
				t.Hit("cf.dbhist.writer.many-puts")
			case 2:
				bg.ballast = 500 + r.Intn(3000)
				t.Hit("cf.dbhist.writer.small-ballast")
			default:
				t.Hit("cf.dbhist.writer.few-puts")
			}
			if r.Intn(6) == 0 {
				bg.at = 2 // after a second read transaction of the same call, if there is one
			}
			w.bg = bg
			batch := []string{"n", "f", "r"}[r.Intn(3)]
			if bad(w.honestGet(t, h, batch, int64(1+r.Intn(5)), nil, "nil")) {
				return
			}
			for _, x := range bg.blks {
				if w.bgFired {
					present[x] = true
				}
			}
			if r.Intn(3) == 0 {
				w.boot()
				t.Op("restart", "ok")
			}
		}
		return
	case 2:
		// other headers from a block FOLLOWING base on (base itself keeps its pair)
		h := base + 1 + r.Intn(3)
		n := u.ftip - h + 1
		var hdrs []chainhash.Hash
		var ids []string
		prev := u.cur[h-1]
		for i := 0; i < n; i++ {
			f := u.truF[h+i]
			if i == 0 || r.Intn(2) == 0 {
				f = u.altF[h+i]
			}
			x, err := builder.MakeHeaderForFilter(f, prev)
			if err != nil {
				panic(err)
			}
			hdrs = append(hdrs, x)
			ids = append(ids, strconv.Itoa(w.hdrID(x)))
			prev = x
		}
		u.setFilterHeaders(h, hdrs)
		recommitted = true
		t.Op(fmt.Sprintf("recommit %d [%s]", h, strings.Join(ids, " ")), "ok")
		t.Hit("cf.op.recommit")
	}
	// the forward batch call answered from the database ...
	mb := []int64{0, 0, int64(3 + r.Intn(6)), 64, 65}[r.Intn(5)]
	if bad(w.honestGet(t, base, "f", mb, nil, "nil")) {
		return
	}
	// ... and the caller walks on: the following blocks, first the one right after which a gap lies
	for h := base + 1; h <= base+span && h <= u.ftip; h++ {
		batch := "f"
		if r.Intn(3) == 0 {
			batch = "n"
		}
		m := []int64{0, 1, 2, int64(2 + r.Intn(5))}[r.Intn(4)]
		if present[h] {
			t.Hit("cf.dbhist.walk.persisted")
		} else {
			t.Hit("cf.dbhist.walk.gap")
		}
		obs := w.honestGet(t, h, batch, m, nil, "nil")
		if bad(obs) {
			return
		}
		// what a batch fetched is persisted as well
		lo, hi := aim(h, u.ftip, batch, m)
		if strings.Contains(obs, " rg "+strconv.Itoa(lo)+":") {
			for x := lo; x <= hi; x++ {
				present[x] = true
			}
		}
	}
}


// runRollbackHist: scripted histories around the filter-HEADER store (the real
// headerfs store; FetchHeaderAncestors is the only source of the headers a response
// is verified against).  (1) A network fetch whose range reaches the tip and starts
// below the coming fork height h, the filter of block h itself not delivered (so that
// neither the cache nor the database can answer for it later); (2) the real store is
// rolled back to h-1 and other headers are committed from h on (re-org depth 1..8);
// (3) right away - the telling call first - the un-batched (or short reverse batch)
// fetch of block h, answered first with the filter that matched the header committed
// BEFORE the roll back, then with the one matching the header committed now.  The
// oracle is the usual one: the returned / cached / persisted filter hash-chains to the
// header the store returns by height NOW (FetchHeaderByHeight, never FetchHeaderAncestors).
func runRollbackHist(t *tr.W, r *rand.Rand, variant int) {
	cap := uint64(3000 + r.Intn(3000))
	persist := r.Intn(2) == 0
	w := newWorld(r, cap, persist)
	u := w.u
	defer func() {
		w.close()
		u.setFilterHeaders(uniBlocks-40, u.truH[uniBlocks-40:])
	}()
	t.Case("cf cap %d persist %s tip %d ftip %d maxrange %d", cap, b01(persist), uniBlocks, u.ftip, wire.MaxGetCFiltersReqRange)
	t.Hit(fmt.Sprintf("cf.rbhist.variant%d", variant))
	depth := 1 + r.Intn(8)
	h := uniBlocks - depth + 1 // the lowest height whose header is replaced
	lo := h - 1 - r.Intn(2)
	drop := func(x int) bool { return x == h }
	// (1) the range [lo, tip] from the network, block h's filter never arrives
	var obs string
	if r.Intn(2) == 0 && h < uniBlocks {
		obs = w.honestGet(t, uniBlocks, "r", int64(uniBlocks-lo+1), drop, "nil")
		t.Hit("cf.rbhist.first.reverse-from-tip")
	} else {
		obs = w.honestGet(t, lo, "f", int64(uniBlocks-lo+1+r.Intn(3)), drop, "nil")
		t.Hit("cf.rbhist.first.forward-to-tip")
	}
	if strings.HasPrefix(obs, "HANG") || strings.HasPrefix(obs, "PANIC") {
		return
	}
	// (2) roll back to h-1, commit other headers from h on (the first one always differs)
	n := depth - r.Intn(2)*r.Intn(depth)
	if n < 1 {
		n = 1
	}
	var hdrs []chainhash.Hash
	var ids []string
	prev := u.cur[h-1]
	for i := 0; i < n; i++ {
		f := u.truF[h+i]
		if i == 0 || r.Intn(2) == 0 {
			f = u.altF[h+i]
		}
		x, err := builder.MakeHeaderForFilter(f, prev)
		if err != nil {
			panic(err)
		}
		hdrs = append(hdrs, x)
		ids = append(ids, strconv.Itoa(w.hdrID(x)))
		prev = x
	}
	u.setFilterHeaders(h, hdrs)
	t.Op(fmt.Sprintf("recommit %d [%s]", h, strings.Join(ids, " ")), "ok")
	t.Hit("cf.op.rollback-recommit")
	// (3) block h: the filter of the replaced header first, then the one committed now
	call := func(target int, batch string, maxBatch int64, resps []resp) string {
		toks := make([]string, len(resps))
		for i, rp := range resps {
			toks[i] = rp.tok + ":1"
		}
		o := w.get(t, target, u.hashes[target], true, batch, maxBatch, false, "nil", resps)
		t.Op(fmt.Sprintf("get %d 1 %s %d 0 nil [%s]", target, batch, maxBatch, strings.Join(toks, " ")), o)
		return o
	}
	stale := func(x int) resp { return w.mkCF(t, wire.GCSFilterRegular, u.hashes[x], nbytes(u.truF[x]), "stale-after-rollback") }
	good := func(x int) resp { return w.mkCF(t, wire.GCSFilterRegular, u.hashes[x], nbytes(u.altF[x]), "good") }
	switch variant {
	case 0:
		obs = call(h, "n", 0, []resp{stale(h), good(h)})
	case 1:
		obs = call(h, "n", 0, []resp{stale(h)})
		if !strings.HasPrefix(obs, "HANG") && !strings.HasPrefix(obs, "PANIC") {
			obs = call(h, "n", 0, []resp{good(h)})
		}
	default:
		pre := w.mkCF(t, wire.GCSFilterRegular, u.hashes[h-1], nbytes(u.truF[h-1]), "good")
		obs = call(h, "r", 2, []resp{stale(h), pre, good(h)})
	}
	if strings.HasPrefix(obs, "HANG") || strings.HasPrefix(obs, "PANIC") {
		return
	}
	if strings.HasPrefix(obs, "ret:") && !strings.Contains(obs, " rg - ") {
		t.Hit("cf.rbhist.fork-height-from-network")
	}
	// ask again what was asked before, and walk on over the re-committed blocks
	w.honestGet(t, h, "n", 0, nil, "nil")
	for x := h + 1; x <= u.ftip && x <= h+2; x++ {
		w.honestGet(t, x, "n", 0, nil, "nil")
	}
}


// ---------------------------------------------------------------------------
// several chain services / filter stores with different chain parameters in ONE process
//
//	case <n> cfnets k <number of networks>
//	open <net> <gfid> <v>  => ok      real header stores + filterdb.New for that network; gfid: the id of the
//	                                  genesis filter this driver built itself (BuildBasicFilter of the network's
//	                                  genesis block), v: it hashes to the committed filter header of height 0
//	reopen <net> <gfid> <v> => ok     filterdb.New again on the same database file
//	gget <net> => ret:<fid>:<v> rg <..>|err:<kind>   the real GetCFilter(genesis hash of <net>) of that network's service;
//	                                  v: the returned bytes hash (with the zero previous header) to what the
//	                                  network's real filter-header store returns for height 0 NOW

var netTable = []struct {
	name string
	p    chaincfg.Params
}{
	{"regtest", chaincfg.RegressionNetParams}, {"simnet", chaincfg.SimNetParams}, {"testnet3", chaincfg.TestNet3Params},
	{"mainnet", chaincfg.MainNetParams}, {"signet", chaincfg.SigNetParams}, {"testnet4", chaincfg.TestNet4Params},
}

type netWorld struct {
	idx   int
	dir   string
	db    walletdb.DB
	fdbDB walletdb.DB
	fs    headerfs.FilterHeaderStore
	cs    *neutrino.ChainService
	d     *disp
}

func runMultiNet(t *tr.W, r *rand.Rand, variant int) {
	k := 2 + r.Intn(3)
	perm := r.Perm(len(netTable))[:k]
	t.Case("cfnets k %d", k)
	t.Hit(fmt.Sprintf("cf.nets.k%d", k))
	fid := map[[32]byte]int{}
	fidOf := func(f *gcs.Filter) int {
		key := sha256.Sum256(nbytes(f))
		if id, ok := fid[key]; ok {
			return id
		}
		fid[key] = 1 + len(fid)
		return fid[key]
	}
	var ws []*netWorld
	defer func() {
		for _, nw := range ws {
			nw.cs.VerifCloseQuit()
			nw.fdbDB.Close()
			nw.db.Close()
			os.RemoveAll(nw.dir)
		}
	}()
	matches := func(nw *netWorld, f *gcs.Filter) bool {
		c, err := nw.fs.FetchHeaderByHeight(0)
		if err != nil || f == nil {
			return false
		}
		cp, err := gcs.FromNBytes(builder.DefaultP, builder.DefaultM, nbytes(f))
		if err != nil {
			return false
		}
		got, err := builder.MakeHeaderForFilter(cp, chainhash.Hash{})
		return err == nil && got == *c
	}
	attach := func(nw *netWorld, op string) {
		np := netTable[nw.idx].p
		fdb, err := filterdb.New(nw.fdbDB, np)
		if err != nil {
			panic(err)
		}
		if nw.cs != nil {
			nw.cs.VerifCloseQuit()
		}
		nw.d = &disp{u: &universe{height: map[chainhash.Hash]int{}, bHeight: map[chainhash.Hash]int{}}, verdict: "nil", rg: "-"}
		bs, err := headerfs.NewBlockHeaderStore(nw.dir, nw.db, &np)
		if err != nil {
			panic(err)
		}
		if nw.fs == nil {
			nw.fs, err = headerfs.NewFilterHeaderStore(nw.dir, nw.db, headerfs.RegularFilter, &np, nil)
			if err != nil {
				panic(err)
			}
		}
		nw.cs = neutrino.VerifNewQueryService(neutrino.VerifQueryParts{
			Params: np, BlockHeaders: bs, RegFilterHeaders: nw.fs, FilterDB: fdb,
			FilterCache: lru.NewCache[neutrino.FilterCacheKey, *neutrino.CacheableFilter](uint64(r.Intn(2)) * 4000),
			WorkManager: nw.d,
		})
		nw.d.cs = nw.cs
		own, err := builder.BuildBasicFilter(np.GenesisBlock, nil)
		if err != nil {
			panic(err)
		}
		t.Op(fmt.Sprintf("%s %s %d %s", op, netTable[nw.idx].name, fidOf(own), b01(matches(nw, own))), "ok")
		t.Hit("cf.nets." + op + "." + netTable[nw.idx].name)
	}
	open := func(i int) *netWorld {
		dir := scratch("verif-cfnet")
		db, err := walletdb.Create("bdb", filepath.Join(dir, "n.db"), true, 10*time.Second, false)
		if err != nil {
			panic(err)
		}
		fdbDB, err := walletdb.Create("bdb", filepath.Join(dir, "f.db"), true, 10*time.Second, false)
		if err != nil {
			panic(err)
		}
		nw := &netWorld{idx: i, dir: dir, db: db, fdbDB: fdbDB}
		ws = append(ws, nw)
		attach(nw, "open")
		return nw
	}
	gget := func(nw *netWorld) {
		np := netTable[nw.idx].p
		nw.d.rg, nw.d.prog, nw.d.resps = "-", nil, nil
		ch := make(chan callRes, 1)
		go func() {
			defer func() {
				if e := recover(); e != nil {
					ch <- callRes{err: fmt.Errorf("PANIC %v", e)}
				}
			}()
			f, err := nw.cs.GetCFilter(*np.GenesisHash, wire.GCSFilterRegular)
			ch <- callRes{f, err}
		}()
		res := "HANG"
		select {
		case cr := <-ch:
			switch {
			case cr.err == nil && cr.f != nil:
				res = fmt.Sprintf("ret:%d:%s rg %s", fidOf(cr.f), b01(matches(nw, cr.f)), nw.d.rg)
			case cr.err == nil:
				res = "err:nilnil"
			case strings.HasPrefix(cr.err.Error(), "PANIC"):
				res = "PANIC"
			default:
				res = "err:other"
			}
		case <-time.After(10 * time.Second):
		}
		t.Op("gget "+netTable[nw.idx].name, res)
		t.Hit("cf.nets.gget")
	}
	switch variant {
	case 0: // open all, then ask all (in opening order, then reversed)
		for _, i := range perm {
			open(i)
		}
		for _, nw := range ws {
			gget(nw)
		}
		for i := len(ws) - 1; i >= 0; i-- {
			gget(ws[i])
		}
	case 1: // ask right after each start-up, and the earlier ones again
		for _, i := range perm {
			gget(open(i))
			gget(ws[r.Intn(len(ws))])
		}
	default: // re-open the stores in another order (a later start of the same process image)
		for _, i := range perm {
			open(i)
		}
		for _, j := range r.Perm(len(ws)) {
			attach(ws[j], "reopen")
			gget(ws[j])
		}
		for _, nw := range ws {
			gget(nw)
		}
	}
}

func init() {
	tr.Register("filter", func(t *tr.W, thorough bool) {
		r := tr.Rng(5)
		n := tr.EnvInt("VERIF_BUDGET", 1) * tr.EnvInt("CF_CASES", 240)
		if thorough {
			n *= 10
		}
		if os.Getenv("VERIF_SEARCH") != "" && n > 3*tr.EnvInt("CF_CASES", 240) {
			// bin/check's search pass after a broken tie (budget x10, thorough): keep a failing quick run short
			n = 3 * tr.EnvInt("CF_CASES", 240)
		}
		for i := 0; i < n; i++ {
			switch {
			case i%25 == 7:
				runCase(t, r, "big")
			case i%5 == 3:
				runCase(t, r, "recommit")
			case i%5 == 1:
				runCase(t, r, "reorg")
			default:
				runCase(t, r, "plain")
			}
		}
		// scripted database histories: a PRNG stream of their own, the random cases stay as they were
		rh := tr.Rng(505)
		for i := 0; i < n/8; i++ {
			runDBHist(t, rh, i%3)
		}
		// scripted roll-back histories of the real filter-header store
		rb := tr.Rng(515)
		for i := 0; i < n/24; i++ {
			runRollbackHist(t, rb, i%3)
		}
		// several networks' filter stores in this one process
		rn := tr.Rng(525)
		for i := 0; i < n/30; i++ {
			runMultiNet(t, rn, i%3)
		}
		if uni != nil { // the universe may live on /dev/shm, which bin/check does not clean
			uni.db.Close()
			os.RemoveAll(uni.dir)
			uni = nil
		}
	})
}
