// Package hldrv drives the REAL headerlist.BoundedMemoryChain (PushBack, ResetHeaderState, Back,
// Node.Prev, Node.Ancestor with its skip pointers and slot reuse) on random sequences of
// reset / push (consecutive heights) / ancestor queries, for small ring sizes so that slots are
// reused constantly.  Every node carries a unique id (in Header.Nonce), so a stale slot handed
// back by Ancestor is visible.  Output: line protocol (package tr); Lean driver `hlist`.
package hldrv

import (
	"fmt"
	"strings"
	"time"

	"github.com/btcsuite/btcd/wire/v2"
	"github.com/lightninglabs/neutrino/headerlist"
	"verifharness/tr"
)

func init() { tr.Register("hl", Run) }

func show(n *headerlist.Node) string {
	if n == nil {
		return "nil"
	}
	return fmt.Sprintf("%d:%d", n.Header.Nonce, n.Height)
}

func Run(t *tr.W, thorough bool) {
	rng := tr.Rng(9107)
	ncases := 300
	if thorough {
		ncases = 6000
	}
	ncases *= tr.EnvInt("VERIF_BUDGET", 1)
	caps := []uint32{1, 2, 3, 4, 5, 7, 8, 16}
	for c := 0; c < ncases; c++ {
		capN := caps[rng.Intn(len(caps))]
		t.Case("cap %d", capN)
		ch := headerlist.NewBoundedMemoryChain(capN)
		id := uint32(0)
		top := int32(rng.Intn(40))
		node := func(h int32) headerlist.Node {
			id++
			return headerlist.Node{Height: h, Header: wire.BlockHeader{Nonce: id}}
		}
		ch.ResetHeaderState(node(top))
		t.Op(fmt.Sprintf("reset %d %d", top, id), show(ch.Back()))
		t.Hit("op.reset")
		nops := 30 + rng.Intn(120)
		for i := 0; i < nops; i++ {
			switch x := rng.Intn(100); {
			case x < 45:
				top++
				nd := node(top)
				pushed := make(chan struct{}, 1)
				go func() { ch.PushBack(nd); pushed <- struct{}{} }()
				select {
				case <-pushed:
				case <-time.After(2 * time.Second): // buildAncestor walks the skip pointers too
					t.Op(fmt.Sprintf("push %d %d", top, id), "HANG")
					t.Hit("op.push.hang")
					return
				}
				t.Op(fmt.Sprintf("push %d %d", top, id), show(ch.Back()))
				t.Hit("op.push")
			case x < 52:
				// reset: to a lower height (reorganisation), the same, or far away
				switch rng.Intn(3) {
				case 0:
					top -= int32(rng.Intn(int(min(top, 6)) + 1))
				case 1:
					top = int32(rng.Intn(300))
				}
				ch.ResetHeaderState(node(top))
				t.Op(fmt.Sprintf("reset %d %d", top, id), show(ch.Back()))
				t.Hit("op.reset")
			case x < 60:
				// the whole list through Prev
				var ss []string
				for n, k := ch.Back(), 0; n != nil && k < int(capN)+3; n, k = n.Prev(), k+1 {
					ss = append(ss, show(n))
				}
				t.Op("walk", "["+strings.Join(ss, " ")+"]")
				t.Hit("op.walk")
			default:
				// Ancestor from the k-th node behind the back, for a height in and around the window
				k := rng.Intn(int(capN) + 1)
				n := ch.Back()
				for j := 0; j < k && n != nil; j++ {
					n = n.Prev()
				}
				h := top - int32(rng.Intn(int(capN)+4)) + int32(rng.Intn(3))
				if h < 0 {
					h = 0
				}
				var r *headerlist.Node
				if n != nil {
					// watchdog: a broken guard can make the skip-pointer walk cycle for ever
					done := make(chan *headerlist.Node, 1)
					go func() { done <- n.Ancestor(h) }()
					select {
					case r = <-done:
					case <-time.After(2 * time.Second):
						t.Op(fmt.Sprintf("anc %d %d", k, h), "HANG")
						t.Hit("op.anc.hang")
						return
					}
				}
				t.Op(fmt.Sprintf("anc %d %d", k, h), show(r))
				if r == nil {
					t.Hit("op.anc.nil")
				} else {
					t.Hit("op.anc.found")
				}
			}
		}
	}
}
