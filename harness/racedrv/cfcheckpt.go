package racedrv

// Workload `cfcheckpt` (C18): a checkpointed filter-header sync of the REAL block
// manager (getCheckpointedCFHeaders over real header stores, VerifCF hook) whose
// query goes through the REAL work manager with real workers, one per peer.
// The chain spans several pairs of checkpoint intervals, so the query consists
// of several requests that are answered by different peers at the same time:
// the per-response callback runs concurrently on the workers' goroutines.

import (
	"fmt"
	"math/rand"
	"os"
	"sync"
	"time"

	"github.com/btcsuite/btcd/btcutil/v2"
	"github.com/btcsuite/btcd/chaincfg/v2"
	"github.com/btcsuite/btcd/chainhash/v2"
	"github.com/btcsuite/btcd/wire/v2"
	"github.com/lightninglabs/neutrino"
	"github.com/lightninglabs/neutrino/headerfs"
	"github.com/lightninglabs/neutrino/query"
)

// cfPeer answers getcfheaders from ground truth, after a small delay, on the channel of its subscribers.
type cfPeer struct {
	addr   string
	disc   chan struct{}
	mu     sync.Mutex
	subs   map[chan wire.Message]bool
	answer func(*wire.MsgGetCFHeaders) *wire.MsgCFHeaders
	delay  time.Duration
}

func (p *cfPeer) QueueMessageWithEncoding(msg wire.Message, done chan<- struct{}, _ wire.MessageEncoding) {
	if done != nil {
		go func() { done <- struct{}{} }()
	}
	req, ok := msg.(*wire.MsgGetCFHeaders)
	if !ok {
		return
	}
	resp := p.answer(req)
	go func() {
		time.Sleep(p.delay)
		p.mu.Lock()
		var chans []chan wire.Message
		for c := range p.subs {
			chans = append(chans, c)
		}
		p.mu.Unlock()
		for _, c := range chans {
			select {
			case c <- resp:
			case <-time.After(2 * time.Second):
			}
		}
	}()
}

func (p *cfPeer) SubscribeRecvMsg() (<-chan wire.Message, func()) {
	c := make(chan wire.Message)
	p.mu.Lock()
	p.subs[c] = true
	p.mu.Unlock()
	return c, func() {
		p.mu.Lock()
		delete(p.subs, c)
		p.mu.Unlock()
	}
}
func (p *cfPeer) Addr() string                  { return p.addr }
func (p *cfPeer) OnDisconnect() <-chan struct{} { return p.disc }

func wlCFCheckpt(seed int64, budget int) {
	r := rand.New(rand.NewSource(seed*31 + 5))
	params := chaincfg.SimNetParams
	interval := int(wire.CFCheckptInterval)
	// 3 or 4 requests of VerifMaxCFCheckptsPerQuery checkpoint intervals each
	nreq := 3 + r.Intn(2)
	n := nreq * neutrino.VerifMaxCFCheckptsPerQuery * interval
	npeers := 3 + r.Intn(2)

	dir, err := os.MkdirTemp("", "racecf")
	if err != nil {
		return
	}
	defer os.RemoveAll(dir)

	peerCh := make(chan query.Peer, npeers)
	wm := query.NewWorkManager(&query.Config{
		ConnectedPeers: func() (<-chan query.Peer, func(), error) { return peerCh, func() {}, nil },
		NewWorker:      query.NewWorker,
		Ranking:        query.NewPeerRanking(),
	})
	net := &neutrino.VerifCFNet{
		QueryAll: func(wire.Message, func(string, wire.Message) bool) {},
		GetBlock: func(chainhash.Hash) (*btcutil.Block, error) { return nil, fmt.Errorf("no blocks here") },
		Query:    wm.Query,
	}
	v, err := neutrino.NewVerifCF(dir, params, net)
	if err != nil {
		return
	}
	defer v.Close()

	// block headers 1..n on top of genesis, and ground-truth filter hashes / headers
	prev, _, err := v.Block.ChainTip()
	if err != nil {
		return
	}
	hashes := make([]chainhash.Hash, n+1) // block hash by height
	hashes[0] = prev.BlockHash()
	byHash := map[chainhash.Hash]int{hashes[0]: 0}
	var batch []headerfs.BlockHeader
	for h := 1; h <= n; h++ {
		hdr := &wire.BlockHeader{Version: 1, PrevBlock: hashes[h-1], Timestamp: time.Unix(1600000000+int64(h), 0), Bits: 0x207fffff, Nonce: uint32(h)}
		hashes[h] = hdr.BlockHash()
		byHash[hashes[h]] = h
		batch = append(batch, headerfs.BlockHeader{BlockHeader: hdr, Height: uint32(h)})
		if len(batch) == 2000 || h == n {
			if v.Block.WriteHeaders(batch...) != nil {
				return
			}
			batch = nil
		}
	}
	g, err := v.Filt.FetchHeaderByHeight(0)
	if err != nil {
		return
	}
	fhash := make([]chainhash.Hash, n+1)
	fhdr := make([]chainhash.Hash, n+1)
	fhdr[0] = *g
	for h := 1; h <= n; h++ {
		r.Read(fhash[h][:])
		fhdr[h] = chainhash.DoubleHashH(append(fhash[h][:], fhdr[h-1][:]...))
	}
	var cps []*chainhash.Hash
	for h := interval; h <= n; h += interval {
		c := fhdr[h]
		cps = append(cps, &c)
	}
	answer := func(req *wire.MsgGetCFHeaders) *wire.MsgCFHeaders {
		stop, ok := byHash[req.StopHash]
		resp := wire.NewMsgCFHeaders()
		resp.FilterType, resp.StopHash = req.FilterType, req.StopHash
		if !ok || int(req.StartHeight) < 1 || int(req.StartHeight) > stop {
			return resp
		}
		resp.PrevFilterHeader = fhdr[req.StartHeight-1]
		for h := int(req.StartHeight); h <= stop; h++ {
			fh := fhash[h]
			_ = resp.AddCFHash(&fh)
		}
		return resp
	}
	for i := 0; i < npeers; i++ {
		peerCh <- &cfPeer{addr: fmt.Sprintf("10.0.1.%d:18555", i+1), disc: make(chan struct{}), subs: map[chan wire.Message]bool{},
			answer: answer, delay: time.Duration(1+r.Intn(3)) * time.Millisecond}
	}
	if wm.Start() != nil {
		return
	}
	time.Sleep(20 * time.Millisecond) // let the dispatcher start one worker per peer
	done := make(chan struct{})
	go func() {
		defer close(done)
		_ = v.GetCheckpointedCFHeaders(cps)
	}()
	select {
	case <-done:
	case <-time.After(60 * time.Second):
		v.Quit()
	}
	_ = wm.Stop()
	if _, h, err := v.Filt.ChainTip(); err == nil && int(h) != n {
		fmt.Fprintf(os.Stderr, "cfcheckpt: filter tip %d, expected %d\n", h, n)
	}
}
