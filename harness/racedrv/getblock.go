package racedrv

// Workload `getblock-shutdown` (C18): ChainService.GetBlock through the REAL work
// manager and a real worker; a scripted peer answers the getdata with the valid
// block, and the work manager is stopped (or the query cancelled) at about the
// moment the response handler is validating it, so that the error verdict
// (ErrWorkManagerShuttingDown / cancellation) reaches the caller while the
// worker is still inside the callback.  Swept over small timing offsets.

import (
	"math/rand"
	"os"
	"path/filepath"
	"sync"
	"sync/atomic"
	"time"

	"github.com/btcsuite/btcd/blockchain"
	"github.com/btcsuite/btcd/chaincfg/v2"
	"github.com/btcsuite/btcd/wire/v2"
	"github.com/btcsuite/btcwallet/walletdb"
	"github.com/lightninglabs/neutrino"
	"github.com/lightninglabs/neutrino/cache/lru"
	"github.com/lightninglabs/neutrino/headerfs"
	"github.com/lightninglabs/neutrino/query"
)

// blockPeer answers every getdata with the prepared block after `delay`.
type blockPeer struct {
	resp  wire.Message
	delay time.Duration
	mu    sync.Mutex
	subs  map[chan wire.Message]bool
	disc  chan struct{}
}

func (p *blockPeer) QueueMessageWithEncoding(msg wire.Message, _ chan<- struct{}, _ wire.MessageEncoding) {
	if _, ok := msg.(*wire.MsgGetData); !ok {
		return
	}
	go func() {
		time.Sleep(p.delay)
		p.mu.Lock()
		var chans []chan wire.Message
		for c := range p.subs {
			chans = append(chans, c)
		}
		p.mu.Unlock()
		for _, c := range chans {
			select {
			case c <- p.resp:
			case <-time.After(time.Second):
			}
		}
	}()
}
func (p *blockPeer) SubscribeRecvMsg() (<-chan wire.Message, func()) {
	c := make(chan wire.Message)
	p.mu.Lock()
	p.subs[c] = true
	p.mu.Unlock()
	return c, func() {
		p.mu.Lock()
		delete(p.subs, c)
		p.mu.Unlock()
	}
}
func (p *blockPeer) Addr() string                  { return "10.0.3.1:18555" }
func (p *blockPeer) OnDisconnect() <-chan struct{} { return p.disc }

// slowTime makes the block validation inside the response handler take a little while, and tells when it runs.
type slowTime struct {
	blockchain.MedianTimeSource
	entered int32
	hold    time.Duration
}

func (s *slowTime) AdjustedTime() time.Time {
	if atomic.AddInt32(&s.entered, 1) == 1 {
		time.Sleep(s.hold)
	}
	return s.MedianTimeSource.AdjustedTime()
}

func wlGetBlockShutdown(seed int64, budget int) {
	r := rand.New(rand.NewSource(seed*13 + 3))
	dir, err := os.MkdirTemp("", "racegetblock")
	if err != nil {
		return
	}
	defer os.RemoveAll(dir)
	db, err := walletdb.Create("bdb", filepath.Join(dir, "n.db"), true, 10*time.Second, false)
	if err != nil {
		return
	}
	defer db.Close()
	params := chaincfg.SimNetParams
	bs, err := headerfs.NewBlockHeaderStore(dir, db, &params)
	if err != nil {
		return
	}
	// the genesis block: its header is in every fresh store, and it passes the handler's sanity checks
	block := params.GenesisBlock
	hash := *params.GenesisHash

	nEntered, nErr := 0, 0
	defer func() {
		// (visible when the child is run by hand: how many rounds reached the handler / ended with an error verdict)
		println("getblock-shutdown: rounds", 24*budget, "handler reached", nEntered, "error verdicts", nErr)
	}()
	for round := 0; round < 24*budget; round++ {
		hold := time.Duration(500+r.Intn(1500)) * time.Microsecond
		ts := &slowTime{MedianTimeSource: blockchain.NewMedianTime(), hold: hold}
		peer := &blockPeer{resp: block, delay: time.Duration(r.Intn(300)) * time.Microsecond,
			subs: map[chan wire.Message]bool{}, disc: make(chan struct{})}
		peerCh := make(chan query.Peer, 1)
		peerCh <- peer
		wm := query.NewWorkManager(&query.Config{
			ConnectedPeers: func() (<-chan query.Peer, func(), error) { return peerCh, func() {}, nil },
			NewWorker:      query.NewWorker,
			Ranking:        query.NewPeerRanking(),
		})
		if wm.Start() != nil {
			return
		}
		cs := neutrino.VerifNewQueryService(neutrino.VerifQueryParts{
			Params: params, TimeSource: ts, BlockHeaders: bs, WorkManager: wm,
			BlockCache: lru.NewCache[wire.InvVect, *neutrino.CacheableBlock](1 << 20),
		})
		got := make(chan struct{})
		go func() {
			defer close(got)
			if _, err := cs.GetBlock(hash); err != nil {
				nErr++
			}
		}()
		// Stop lands before, in the middle of, or after the handler's validation: wait for the handler on two
		// rounds out of three, then sweep an offset around `hold`
		if round%3 != 0 {
			for i := 0; i < 2000 && atomic.LoadInt32(&ts.entered) == 0; i++ {
				time.Sleep(50 * time.Microsecond)
			}
		}
		time.Sleep(time.Duration(r.Intn(int(hold)+200_000)) * time.Nanosecond)
		_ = wm.Stop()
		select {
		case <-got:
		case <-time.After(3 * time.Second):
		}
		cs.VerifCloseQuit()
		if atomic.LoadInt32(&ts.entered) > 0 {
			nEntered++
		}
	}
}
