// Package racedrv: concurrent public-API use of components of the REAL code
// under the Go race detector (C18).
//
// The driver re-executes the correspondence binary as a child built with
// `-race` (it builds one into $TMPDIR from VERIF_HARNESS_DIR unless the running
// binary already is a race build), one child per workload, with
// GORACE="halt_on_error=0 log_path=...", and turns every distinct report of the
// race log into one observation line:
//
//	case <n> race <workload>
//	race <k> => <func1>|<func2> <kind>        (entry-level neutrino functions of the two stacks, sorted)
//	race none => clean
package racedrv

import (
	"fmt"
	"os"
	"os/exec"
	"path/filepath"
	"regexp"
	"sort"
	"strings"
	"syscall"
	"time"

	"verifharness/tr"
)

func init() { tr.Register("race", Run) }

type workload struct {
	name string
	run  func(seed int64, budget int)
}

var workloads []workload

func harnessDir() string {
	if d := os.Getenv("VERIF_HARNESS_DIR"); d != "" {
		return d
	}
	// bin/check builds <verif>/build/corr from <verif>/harness
	if exe, err := os.Executable(); err == nil {
		d := filepath.Join(filepath.Dir(filepath.Dir(exe)), "harness")
		if st, err := os.Stat(filepath.Join(d, "go.mod")); err == nil && !st.IsDir() {
			return d
		}
	}
	return ""
}

func goEnv() []string {
	var env []string
	for _, e := range os.Environ() {
		if strings.HasPrefix(e, "GOSUMDB=") || strings.HasPrefix(e, "GOTOOLCHAIN=") || strings.HasPrefix(e, "GOFLAGS=") ||
			strings.HasPrefix(e, "GOPROXY=") || strings.HasPrefix(e, "CGO_ENABLED=") {
			continue
		}
		env = append(env, e)
	}
	return append(env, "GOFLAGS=-mod=mod", "GOPROXY=off", "CGO_ENABLED=1")
}

// raceBinary returns a race-enabled corr binary.
func raceBinary(t *tr.W) (string, error) {
	if raceEnabled {
		return os.Executable()
	}
	dir := harnessDir()
	if dir == "" {
		return "", fmt.Errorf("harness source directory not found (set VERIF_HARNESS_DIR)")
	}
	out := filepath.Join(os.TempDir(), "corr-race")
	cmd := exec.Command("go", "build", "-race", "-tags", "verif", "-o", out, "./cmd/corr")
	cmd.Dir = dir
	cmd.Env = goEnv()
	if b, err := cmd.CombinedOutput(); err != nil {
		return "", fmt.Errorf("go build -race failed: %v: %s", err, lastLines(string(b), 6))
	}
	t.Hit("race.built")
	return out, nil
}

func lastLines(s string, n int) string {
	ls := strings.Split(strings.TrimSpace(s), "\n")
	if len(ls) > n {
		ls = ls[len(ls)-n:]
	}
	return strings.Join(ls, " / ")
}

var frameRe = regexp.MustCompile(`^\s{2}(\S+)\(`)

// entryFunc gives the entry-level neutrino function of one stack: the last
// frame inside github.com/lightninglabs/neutrino before the harness frames.
func entryFunc(frames []string) string {
	first, last, lastIdx := "", "", -1
	for i, f := range frames {
		if strings.Contains(f, "github.com/lightninglabs/neutrino") {
			if first == "" {
				first = f
			}
			last, lastIdx = f, i
		}
	}
	if last == "" {
		return ""
	}
	// The access was made on a goroutine the client started itself (a worker, a handler: no harness frame
	// below the neutrino frames): the entry frame is only the goroutine's root, so name the function that
	// made the access instead.
	harnessBelow := false
	for _, f := range frames[lastIdx+1:] {
		if strings.Contains(f, "verifharness/") {
			harnessBelow = true
		}
	}
	f := last
	if !harnessBelow {
		f = first
	}
	if i := strings.LastIndex(f, "/"); i >= 0 {
		f = f[i+1:]
	}
	// strip type arguments, pointer receivers, closure suffixes
	for {
		i := strings.Index(f, "[")
		if i < 0 {
			break
		}
		depth, j := 0, i
		for ; j < len(f); j++ {
			if f[j] == '[' {
				depth++
			} else if f[j] == ']' {
				depth--
				if depth == 0 {
					break
				}
			}
		}
		if j >= len(f) {
			break
		}
		f = f[:i] + f[j+1:]
	}
	f = strings.NewReplacer("(*", "", ")", "", "(", "").Replace(f)
	if i := strings.Index(f, ".func"); i >= 0 {
		f = f[:i]
	}
	f = strings.TrimPrefix(f, "neutrino.")
	return f
}

type report struct {
	pair   string
	kind   string
	detail []string // the neutrino frames of the two accesses with file:line (for the replay)
}

func parseReports(text string) []report {
	var out []report
	seen := map[string]bool{}
	for _, blk := range strings.Split(text, "WARNING: DATA RACE")[1:] {
		var stacks [][]string
		var kinds []string
		var cur []string
		var detail []string
		lastFrame := ""
		inAccess := false
		flush := func() {
			if inAccess {
				stacks = append(stacks, cur)
			}
			cur, inAccess = nil, false
		}
		for _, line := range strings.Split(blk, "\n") {
			tl := strings.TrimSpace(line)
			switch {
			case strings.HasPrefix(tl, "Read at"), strings.HasPrefix(tl, "Write at"), strings.HasPrefix(tl, "Previous read at"),
				strings.HasPrefix(tl, "Previous write at"), strings.HasPrefix(tl, "Atomic"), strings.HasPrefix(tl, "Previous atomic"):
				flush()
				inAccess = true
				kinds = append(kinds, strings.ToLower(strings.Fields(strings.TrimPrefix(tl, "Previous "))[0]))
				detail = append(detail, strings.ToLower(strings.TrimSuffix(strings.Join(strings.Fields(tl)[:2], " "), " at"))+" by:")
			case strings.HasPrefix(tl, "Goroutine "), strings.HasPrefix(tl, "=========="):
				flush()
			default:
				if m := frameRe.FindStringSubmatch(line); m != nil && inAccess {
					cur = append(cur, m[1])
					lastFrame = m[1]
				} else if inAccess && lastFrame != "" && strings.Contains(lastFrame, "github.com/lightninglabs/neutrino") {
					// the source position of the frame just seen (path relative to the repository)
					if f := strings.Fields(tl); len(f) > 0 && strings.Contains(f[0], ".go:") {
						pos := f[0]
						for _, root := range []string{"/repo/", "/neutrino/"} {
							if i := strings.LastIndex(pos, root); i >= 0 {
								pos = pos[i+len(root):]
								break
							}
						}
						detail = append(detail, "  "+strings.TrimPrefix(lastFrame, "github.com/lightninglabs/")+" "+pos)
					}
					lastFrame = ""
				}
			}
		}
		flush()
		if len(stacks) < 2 {
			continue
		}
		a, b := entryFunc(stacks[0]), entryFunc(stacks[1])
		if a == "" && b == "" {
			continue
		}
		if a == "" {
			a = "(harness)"
		}
		if b == "" {
			b = "(harness)"
		}
		if b < a {
			a, b = b, a
		}
		sort.Strings(kinds)
		r := report{pair: a + "|" + b, kind: strings.Join(kinds, "/"), detail: detail}
		if !seen[r.pair] {
			seen[r.pair] = true
			out = append(out, r)
		}
	}
	sort.Slice(out, func(i, j int) bool { return out[i].pair < out[j].pair })
	return out
}

// runChild runs the command with a watchdog; on expiry it asks for a goroutine dump (SIGQUIT) and reports timedOut.
func runChild(cmd *exec.Cmd, limit time.Duration) ([]byte, error, bool) {
	var buf strings.Builder
	cmd.Stdout, cmd.Stderr = &buf, &buf
	if err := cmd.Start(); err != nil {
		return nil, err, false
	}
	done := make(chan error, 1)
	go func() { done <- cmd.Wait() }()
	select {
	case err := <-done:
		return []byte(buf.String()), err, false
	case <-time.After(limit):
		_ = cmd.Process.Signal(syscall.SIGQUIT)
		select {
		case <-done:
		case <-time.After(5 * time.Second):
			_ = cmd.Process.Kill()
			<-done
		}
		return []byte(buf.String()), nil, true
	}
}

var lockWaitRe = regexp.MustCompile(`\[sync\.(RWMutex\.R?Lock|Mutex\.Lock)[^\]]*\]:`)

// deadlockSite names the neutrino functions of goroutines parked on a mutex in a SIGQUIT dump.
func deadlockSite(dump string) string {
	seen := map[string]bool{}
	var out []string
	for _, g := range strings.Split(dump, "\n\ngoroutine ")[1:] {
		head, _, _ := strings.Cut(g, "\n")
		if !lockWaitRe.MatchString(head) {
			continue
		}
		for _, line := range strings.Split(g, "\n") {
			if strings.HasPrefix(line, "github.com/lightninglabs/neutrino") {
				f := entryFunc([]string{line[:strings.LastIndex(line, "(")]})
				if f != "" && !seen[f] {
					seen[f] = true
					out = append(out, f)
				}
				break
			}
		}
	}
	sort.Strings(out)
	return "waiting-on-mutex:" + strings.Join(out, ",")
}

func Run(t *tr.W, thorough bool) {
	if w := os.Getenv("VERIF_RACE_WORKLOAD"); w != "" {
		// child: run one workload under the race detector
		budget := min(tr.EnvInt("VERIF_BUDGET", 1), 3)
		if thorough {
			budget *= 2
		}
		for _, wl := range workloads {
			if wl.name == w {
				wl.run(tr.Seed(), budget)
			}
		}
		return
	}
	bin, err := raceBinary(t)
	if err != nil {
		t.Case("race build")
		t.Op("build", "UNAVAILABLE "+strings.ReplaceAll(err.Error(), "\n", " "))
		return
	}
	for _, wl := range workloads {
		t.Case("race %s", wl.name)
		logBase := filepath.Join(os.TempDir(), "race-"+wl.name)
		cmd := exec.Command(bin, "race", filepath.Join(os.TempDir(), "race-child-"+wl.name+".trace"))
		cmd.Env = append(os.Environ(), "VERIF_RACE_WORKLOAD="+wl.name, "GORACE=halt_on_error=0 exitcode=0 log_path="+logBase)
		outb, err, timedOut := runChild(cmd, time.Duration(20*min(tr.EnvInt("VERIF_BUDGET", 1), 3))*time.Second)
		if timedOut {
			// no progress at all: a deadlock inside the component (the child dumps its goroutines on SIGQUIT)
			_ = os.WriteFile(logBase+".deadlock.txt", outb, 0o644)
			t.Op("run "+wl.name, "HANG deadlock:"+wl.name+" "+deadlockSite(string(outb)))
			t.Hit("race.child.hang")
			continue
		}
		if err != nil {
			t.Op("run "+wl.name, "CRASH "+lastLines(string(outb), 3))
			t.Hit("race.child.crash")
			continue
		}
		var text strings.Builder
		logs, _ := filepath.Glob(logBase + ".*")
		for _, l := range logs {
			b, _ := os.ReadFile(l)
			text.Write(b)
		}
		reps := parseReports(text.String())
		t.Hit("race.workload." + wl.name)
		if len(reps) == 0 {
			t.Op("race none", "clean")
			continue
		}
		for i, r := range reps {
			t.Op(fmt.Sprintf("race %d", i+1), r.pair+" "+r.kind)
			for _, d := range r.detail {
				t.Line("# race %d: %s", i+1, d)
			}
			t.Hit("race.report")
		}
	}
}
