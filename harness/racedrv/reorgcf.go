package racedrv

// Workload `reorg-cfhandler` (C18): the REAL block manager with both of its
// handler goroutines (bm.Start: blockHandler and, once the first peer is
// signalled, cfHandler) over real header stores.  The block handler is given a
// mined chain, then a heavier fork (chain reorganisation: rollBackToHeight
// runs), or a branch that contradicts a checkpoint (checkpoint-mismatch
// roll-back); the reader of its notifications is slow, so a roll-back takes a
// while.  In the meantime cfHandler starts, or comes back to its header-tip
// comparisons: the two handlers look at the in-memory tips of the block
// manager at the same time.
//
// The workload never observes the block handler's progress through the
// database, a store call or a channel: that would order the block handler's
// memory accesses before whatever the workload does next and hide exactly the
// races this is about (the peer handler of the real client does not do that
// either).  It polls the size of the flat header file with a plain stat (the
// store truncates the file as the last step of disconnecting a block, and
// appends as the last step of connecting one) and sleeps.

import (
	"fmt"
	"math/rand"
	"os"
	"path/filepath"
	"sync/atomic"
	"time"

	"github.com/btcsuite/btcd/blockchain"
	"github.com/btcsuite/btcd/btcutil/v2"
	"github.com/btcsuite/btcd/chaincfg/v2"
	"github.com/btcsuite/btcd/chainhash/v2"
	"github.com/btcsuite/btcd/wire/v2"
	"github.com/lightninglabs/neutrino"
	"github.com/lightninglabs/neutrino/headerfs"
	"github.com/lightninglabs/neutrino/query"
	"verifharness/tr"
)

// mineHeaders builds n simnet headers on prev that pass the block manager's header checks (proof of work,
// difficulty, whole-second increasing timestamps, version).
func mineHeaders(prev *wire.BlockHeader, first time.Time, n int, salt byte) []*wire.BlockHeader {
	target := blockchain.CompactToBig(chaincfg.SimNetParams.PowLimitBits)
	var out []*wire.BlockHeader
	for i := 0; i < n; i++ {
		var merkle chainhash.Hash
		merkle[0], merkle[1] = salt, byte(i)
		h := &wire.BlockHeader{Version: 0x20000000, PrevBlock: prev.BlockHash(), MerkleRoot: merkle,
			Timestamp: first.Add(time.Duration(i) * 10 * time.Minute), Bits: chaincfg.SimNetParams.PowLimitBits}
		for {
			hash := h.BlockHash()
			if blockchain.HashToBig(&hash).Cmp(target) <= 0 {
				break
			}
			h.Nonce++
		}
		out = append(out, h)
		prev = h
	}
	return out
}

// pollFileSize waits (bounded) until the file has a size for which ok holds; no synchronisation with anybody.
func pollFileSize(path string, limit time.Duration, ok func(int64) bool) bool {
	deadline := time.Now().Add(limit)
	for {
		st, err := os.Stat(path)
		if err == nil && ok(st.Size()) {
			return true
		}
		if time.Now().After(deadline) {
			if os.Getenv("VERIF_RACE_DEBUG") != "" && err == nil {
				fmt.Fprintf(os.Stderr, "reorg-cfhandler: header file still has %d bytes\n", st.Size())
			}
			return false
		}
		time.Sleep(2 * time.Millisecond)
	}
}

func reorgCFRound(r *rand.Rand, variant string) {
	if os.Getenv("VERIF_RACE_DEBUG") != "" {
		t0 := time.Now()
		defer func() { fmt.Fprintf(os.Stderr, "reorg-cfhandler: round %s took %v\n", variant, time.Since(t0)) }()
	}
	dir, err := os.MkdirTemp("", "racereorg")
	if err != nil {
		return
	}
	defer os.RemoveAll(dir)
	params := chaincfg.SimNetParams
	genesis := &params.GenesisBlock.Header
	// the chain the client knows: n headers, the last one about two hours old (so the header sync counts as
	// finished unless a checkpoint lies ahead)
	n := 6 + r.Intn(4)
	start := time.Unix(time.Now().Add(-time.Duration(n)*10*time.Minute-2*time.Hour).Unix(), 0)
	chainA := mineHeaders(genesis, start, n+3, 0xa)
	if variant == "checkpoint-mismatch" {
		// a checkpoint two blocks above the known chain, on chain A
		h := chainA[n+1].BlockHash()
		params.Checkpoints = []chaincfg.Checkpoint{{Height: int32(n + 2), Hash: &h}}
	}
	net := &neutrino.VerifCFNet{
		QueryAll: func(wire.Message, func(string, wire.Message) bool) {},
		GetBlock: func(chainhash.Hash) (*btcutil.Block, error) { return nil, fmt.Errorf("no blocks here") },
		Query: func([]*query.Request, ...query.QueryOption) chan error {
			c := make(chan error, 1)
			c <- query.ErrWorkManagerShuttingDown
			return c
		},
	}
	v, err := neutrino.NewVerifCF(dir, params, net)
	if err != nil {
		return
	}
	v.StopDrain() // the round's own (slow) reader takes the notifications
	headerFile := filepath.Join(dir, "block_headers.bin")
	size := func(h int) func(int64) bool { return func(s int64) bool { return s == int64(h+1)*80 } }

	if variant == "restart-reorg" {
		// synced during an earlier run: the headers are already in the stores when the client starts
		var bhs []headerfs.BlockHeader
		for i, h := range chainA[:n] {
			bhs = append(bhs, headerfs.BlockHeader{BlockHeader: h, Height: uint32(i + 1)})
		}
		err := v.Block.WriteHeaders(bhs...)
		v.CloseStores()
		if err != nil {
			return
		}
		if v, err = neutrino.NewVerifCF(dir, params, net); err != nil {
			return
		}
		v.StopDrain()
	}
	defer func() { v.CloseStores() }()
	firstPeer := make(chan struct{})
	v.SetFirstPeerSignal(firstPeer)

	// the only reader of the notifications: takes nothing while it is stalled, else one every few milliseconds
	var stall atomic.Bool
	stall.Store(true)
	stopReader := make(chan struct{})
	readerDone := make(chan struct{})
	pace := time.Duration(1+r.Intn(3)) * time.Millisecond
	go func() {
		defer close(readerDone)
		ch := v.NotificationSource().Notifications()
		for {
			if stall.Load() {
				select {
				case <-stopReader:
					return
				case <-time.After(time.Millisecond):
				}
				continue
			}
			select {
			case <-ch:
				time.Sleep(pace)
			case <-stopReader:
				return
			}
		}
	}()
	doRelease := func() { stall.Store(false) }
	v.StartHandlers()
	defer func() {
		doRelease()
		stopped := make(chan struct{})
		go func() { _ = v.StopHandlers(); close(stopped) }()
		select {
		case <-stopped:
		case <-time.After(10 * time.Second):
			fmt.Fprintln(os.Stderr, "reorg-cfhandler: blockManager.Stop did not return")
		}
		close(stopReader)
		<-readerDone
	}()

	const peerA, peerB = "10.0.4.1:18555", "10.0.4.2:18555"
	cfStarted := false
	startCF := func() {
		if !cfStarted {
			cfStarted = true
			close(firstPeer)
		}
	}
	if variant != "restart-reorg" {
		// the block handler connects the known chain itself; cfHandler may already be running by then
		if r.Intn(2) == 0 {
			startCF()
		}
		doRelease()
		v.QueueHeaders(peerA, chainA[:n])
		if !pollFileSize(headerFile, 5*time.Second, size(n)) {
			fmt.Fprintln(os.Stderr, "reorg-cfhandler: the chain was never connected")
			return
		}
		time.Sleep(time.Duration(5+r.Intn(20)) * time.Millisecond)
		stall.Store(true) // from here on the reader takes (at most one more and then) nothing until released
		time.Sleep(3 * time.Millisecond)
	}

	switch variant {
	case "checkpoint-mismatch":
		// headers n+1 .. n+3 of another branch: the one at the checkpoint height has the wrong hash
		fork := mineHeaders(chainA[n-1], chainA[n-1].Timestamp.Add(10*time.Minute), 3, 0xc)
		v.QueueHeaders(peerB, fork)
	default:
		// a heavier branch that forks off after height f: replaces n-f blocks by n-f+2
		f := 1 + r.Intn(2)
		fork := mineHeaders(chainA[f-1], chainA[f-1].Timestamp.Add(10*time.Minute), n-f+2, 0xb)
		v.QueueHeaders(peerB, fork)
		defer func(tip int) {
			// (runs before the deferred Stop above) let the reorganisation complete
			doRelease()
			pollFileSize(headerFile, 5*time.Second, size(tip))
			time.Sleep(20 * time.Millisecond)
		}(n + 2)
	}
	// the old tip has been disconnected: the block handler is inside rollBackToHeight, held up by the reader
	if !pollFileSize(headerFile, 5*time.Second, func(s int64) bool { return s <= int64(n)*80 }) {
		fmt.Fprintln(os.Stderr, "reorg-cfhandler: the old tip was never disconnected ("+variant+")")
		return
	}
	time.Sleep(time.Duration(20+r.Intn(80)) * time.Millisecond)
	// the peer handler gets round to signalling the first peer: cfHandler starts its header-tip comparisons
	startCF()
	time.Sleep(time.Duration(50+r.Intn(150)) * time.Millisecond)
	doRelease()
	if variant == "checkpoint-mismatch" {
		pollFileSize(headerFile, 5*time.Second, size(0))
		time.Sleep(20 * time.Millisecond)
		// the honest peer delivers the chain again (the block handler stops reading a message at the checkpoint)
		v.QueueHeaders(peerA, chainA)
		pollFileSize(headerFile, 5*time.Second, size(n+2))
		time.Sleep(20 * time.Millisecond)
	}
}

func wlReorgCFHandler(seed int64, budget int) {
	r := rand.New(rand.NewSource(seed*131 + 9))
	// a round costs about 1.5 s in a race build, most of it opening the stores; the parent's watchdog for this child
	// is 20 s times the run's budget (at most 3): no new round is started in the second half of that
	limit := time.Duration(9*min(tr.EnvInt("VERIF_BUDGET", 1), 3)) * time.Second
	start := time.Now()
	variants := []string{"restart-reorg", "checkpoint-mismatch", "sync-then-reorg"}
	for i := 0; i < 1+3*budget; i++ {
		if i >= 3 && time.Since(start) > limit {
			fmt.Fprintf(os.Stderr, "reorg-cfhandler: %d rounds in %v, stopping early\n", i, time.Since(start))
			break
		}
		reorgCFRound(r, variants[i%len(variants)])
	}
}
