//go:build race

package racedrv

const raceEnabled = true
