package racedrv

import (
	"math/rand"
	"net"
	"os"
	"path/filepath"
	"sync"
	"time"

	"github.com/btcsuite/btcd/btcutil/v2"
	"github.com/btcsuite/btcd/chaincfg/v2"
	"github.com/btcsuite/btcd/chainhash/v2"
	"github.com/btcsuite/btcd/wire/v2"
	"github.com/btcsuite/btcwallet/walletdb"
	_ "github.com/btcsuite/btcwallet/walletdb/bdb"
	"github.com/lightninglabs/neutrino"
	"github.com/lightninglabs/neutrino/banman"
	"github.com/lightninglabs/neutrino/blockntfns"
	"github.com/lightninglabs/neutrino/cache/lru"
	"github.com/lightninglabs/neutrino/headerfs"
	"github.com/lightninglabs/neutrino/pushtx"
	"verifharness/netsim"
)

func init() {
	workloads = []workload{
		{"lru", wlLru}, {"lru-range", wlLruRange}, {"headerstore", func(s int64, b int) { wlStores(s, b, false) }},
		{"headerstore-locator", func(s int64, b int) { wlStores(s, b, true) }}, {"submgr", wlSubMgr},
		{"utxoscanner", wlScanner}, {"broadcaster", wlBroadcaster},
		// the whole client in the network simulation while user goroutines hammer the public read API
		{"netsim-sync", netsim.RaceWorkload},
		// checkpointed filter-header sync of the real block manager through the real work manager, >= 3 answering peers
		{"cfcheckpt", wlCFCheckpt},
		// GetBlock through the real work manager, stopped while the response handler validates the answer
		{"getblock-shutdown", wlGetBlockShutdown},
		// real blockHandler and cfHandler goroutines: reorganisation / checkpoint-mismatch roll-back while cfHandler starts
		{"reorg-cfhandler", wlReorgCFHandler},
		// the ban store on its own: lookups, bans (lapsed at once / long-lived) and unbans of a few networks
		{"banstore", wlBanStore},
	}
}

// ban store: Status / BanIPNet / UnbanIPNet from 6 goroutines over a handful of networks.  Half of the bans have
// lapsed by the time they are looked up (the store reaps a lapsed record inside Status), so the lookups of several
// goroutines meet the reaping of one of them; lookups of never-banned and of actively banned networks run next to it.
func wlBanStore(seed int64, budget int) {
	dir, err := os.MkdirTemp("", "raceban")
	if err != nil {
		return
	}
	defer os.RemoveAll(dir)
	db, err := walletdb.Create("bdb", filepath.Join(dir, "ban.db"), true, 10*time.Second, false)
	if err != nil {
		return
	}
	defer db.Close()
	store, err := banman.NewStore(db)
	if err != nil {
		return
	}
	var nets []*net.IPNet
	for _, a := range []string{"203.0.113.7:8333", "203.0.113.8:8333", "198.51.100.1:18333", "[2001:db8::7]:8333", "[2001:db8:1::9]:8333"} {
		if n, err := banman.ParseIPNet(a, nil); err == nil {
			nets = append(nets, n)
		}
	}
	deadline := time.Now().Add(time.Duration(3*budget) * time.Second)
	par(6, func(g int, r *rand.Rand) {
		r.Seed(seed*131 + int64(g))
		for i := 0; i < 400*budget && time.Now().Before(deadline); i++ {
			n := nets[r.Intn(len(nets))]
			switch k := r.Intn(100); {
			case k < 55:
				_, _ = store.Status(n)
			case k < 80:
				// lapsed at once (the expiry is kept in whole seconds)
				_ = store.BanIPNet(n, banman.ExceededBanThreshold, time.Duration(r.Intn(2)))
			case k < 88:
				_ = store.BanIPNet(n, banman.NoCompactFilters, time.Hour)
			default:
				_ = store.UnbanIPNet(n)
			}
		}
	})
}

type sized uint64

func (s sized) Size() (uint64, error) { return uint64(s), nil }

func par(n int, f func(g int, r *rand.Rand)) {
	var wg sync.WaitGroup
	for g := 0; g < n; g++ {
		wg.Add(1)
		go func(g int) {
			defer wg.Done()
			f(g, rand.New(rand.NewSource(int64(g)*7919+1)))
		}(g)
	}
	wg.Wait()
}

// lru cache: the synchronised part of the API from 4 goroutines
func wlLru(seed int64, budget int) {
	c := lru.NewCache[int, sized](64)
	par(4, func(g int, r *rand.Rand) {
		for i := 0; i < 3000*budget; i++ {
			k := r.Intn(40)
			switch r.Intn(6) {
			case 0, 1:
				_, _ = c.Put(k, sized(1+r.Intn(8)))
			case 2:
				_, _ = c.Get(k)
			case 3:
				c.Delete(k)
			case 4:
				_ = c.Len()
			default:
				_ = c.Size()
			}
		}
	})
}

// lru cache: the ordered iterators next to writers
func wlLruRange(seed int64, budget int) {
	c := lru.NewCache[int, sized](64)
	par(4, func(g int, r *rand.Rand) {
		for i := 0; i < 1500*budget; i++ {
			switch {
			case g < 2:
				_, _ = c.Put(r.Intn(40), sized(1+r.Intn(8)))
			case g == 2:
				c.RangeFILO(func(int, sized) bool { return true })
			default:
				c.RangeFIFO(func(int, sized) bool { return true })
			}
		}
	})
}

// header stores: one writer (append + rollback), readers of every read method
func wlStores(seed int64, budget int, locator bool) {
	dir, err := os.MkdirTemp("", "racestores")
	if err != nil {
		return
	}
	defer os.RemoveAll(dir)
	db, err := walletdb.Create("bdb", filepath.Join(dir, "n.db"), true, 10*time.Second, false)
	if err != nil {
		return
	}
	defer db.Close()
	params := &chaincfg.SimNetParams
	bs, err := headerfs.NewBlockHeaderStore(dir, db, params)
	if err != nil {
		return
	}
	fs, err := headerfs.NewFilterHeaderStore(dir, db, headerfs.RegularFilter, params, nil)
	if err != nil {
		return
	}
	stop := make(chan struct{})
	var wg sync.WaitGroup
	for g := 0; g < 3; g++ {
		wg.Add(1)
		go func(g int) {
			defer wg.Done()
			r := rand.New(rand.NewSource(int64(g) + 99))
			for {
				select {
				case <-stop:
					return
				default:
				}
				tip, h, err := bs.ChainTip()
				if err != nil {
					continue
				}
				hash := tip.BlockHash()
				switch r.Intn(7) {
				case 0:
					_, _ = bs.FetchHeaderByHeight(uint32(r.Intn(int(h) + 1)))
				case 1:
					_, _, _ = bs.FetchHeader(&hash)
				case 2:
					_, _, _ = bs.FetchHeaderAncestors(uint32(r.Intn(int(h)+1)), &hash)
				case 3:
					_, _ = bs.HeightFromHash(&hash)
				case 4:
					if locator {
						_, _ = bs.LatestBlockLocator()
					}
				case 5:
					_, _, _ = fs.ChainTip()
					_, _ = fs.FetchHeaderByHeight(uint32(r.Intn(int(h) + 1)))
				default:
					_, _, _ = fs.FetchHeaderAncestors(0, &hash)
				}
			}
		}(g)
	}
	r := rand.New(rand.NewSource(seed))
	for i := 0; i < 60*budget; i++ {
		tip, h, err := bs.ChainTip()
		if err != nil {
			break
		}
		if h > 2 && r.Intn(5) == 0 {
			_, _ = fs.RollbackLastBlock(&tip.PrevBlock)
			_, _ = bs.RollbackLastBlock()
			continue
		}
		nh := &wire.BlockHeader{Version: 1, PrevBlock: tip.BlockHash(), Timestamp: time.Unix(1600000000+int64(i), 0), Bits: 0x207fffff, Nonce: r.Uint32()}
		if bs.WriteHeaders(headerfs.BlockHeader{BlockHeader: nh, Height: h + 1}) != nil {
			break
		}
		var fh chainhash.Hash
		r.Read(fh[:])
		_ = fs.WriteHeaders(headerfs.FilterHeader{HeaderHash: nh.BlockHash(), FilterHash: fh, Height: h + 1})
	}
	close(stop)
	wg.Wait()
}

type src struct{ ch chan blockntfns.BlockNtfn }

func (s *src) Notifications() <-chan blockntfns.BlockNtfn { return s.ch }
func (s *src) NotificationsSinceHeight(h uint32) ([]blockntfns.BlockNtfn, uint32, error) {
	return []blockntfns.BlockNtfn{blockntfns.NewBlockConnected(wire.BlockHeader{}, h+1)}, h + 1, nil
}

// subscription manager: subscribe / cancel / emit / stop concurrently
func wlSubMgr(seed int64, budget int) {
	for round := 0; round < 20*budget; round++ {
		s := &src{ch: make(chan blockntfns.BlockNtfn)}
		m := blockntfns.NewSubscriptionManager(s)
		m.Start()
		var wg sync.WaitGroup
		for g := 0; g < 3; g++ {
			wg.Add(1)
			go func() {
				defer wg.Done()
				for i := 0; i < 5; i++ {
					sub, err := m.NewSubscription(1)
					if err != nil {
						return
					}
					select {
					case <-sub.Notifications:
					case <-time.After(time.Millisecond):
					}
					sub.Cancel()
				}
			}()
		}
		wg.Add(1)
		go func() {
			defer wg.Done()
			for i := 0; i < 20; i++ {
				select {
				case s.ch <- blockntfns.NewBlockConnected(wire.BlockHeader{Nonce: uint32(i)}, uint32(i+2)):
				case <-time.After(5 * time.Millisecond):
					return
				}
			}
		}()
		time.Sleep(time.Duration(round%4) * time.Millisecond)
		m.Stop()
		wg.Wait()
	}
}

func anyMatch[T any](_ T, _ *chainhash.Hash) (bool, error) { return false, nil }

// scanner: Enqueue from several goroutines during scans, Result, Stop
func wlScanner(seed int64, budget int) {
	genesis := chaincfg.SimNetParams.GenesisBlock
	for round := 0; round < 60*budget; round++ {
		cfg := &neutrino.UtxoScannerConfig{
			BestSnapshot: func() (*headerfs.BlockStamp, error) {
				return &headerfs.BlockStamp{Height: 0, Hash: *chaincfg.SimNetParams.GenesisHash}, nil
			},
			GetBlockHash: func(int64) (*chainhash.Hash, error) { return chaincfg.SimNetParams.GenesisHash, nil },
			GetBlock: func(chainhash.Hash, ...neutrino.QueryOption) (*btcutil.Block, error) {
				return btcutil.NewBlock(genesis), nil
			},
		}
		cfg.BlockFilterMatches = anyMatch
		s := neutrino.NewUtxoScanner(cfg)
		_ = s.Start()
		var wg sync.WaitGroup
		for g := 0; g < 4; g++ {
			wg.Add(1)
			go func(g int) {
				defer wg.Done()
				for i := 0; i < 6; i++ {
					req, err := s.Enqueue(&neutrino.InputWithScript{OutPoint: wire.OutPoint{Index: uint32(g*100 + i)}, PkScript: []byte{0x51}}, 0, nil)
					if err != nil {
						return
					}
					if i%2 == 0 {
						cancel := make(chan struct{})
						close(cancel)
						_, _ = req.Result(cancel)
						continue
					}
					// result fan-out: several goroutines wait on the same request while the scan delivers
					// (the type supports it: the first reader caches the single delivery for the others)
					cancel := make(chan struct{})
					tm := time.AfterFunc(100*time.Millisecond, func() { close(cancel) })
					var rg sync.WaitGroup
					for k := 0; k < 3; k++ {
						rg.Add(1)
						go func(k int) {
							defer rg.Done()
							if k == 2 {
								time.Sleep(200 * time.Microsecond) // a late reader
							}
							_, _ = req.Result(cancel)
							_, _ = req.Result(cancel)
						}(k)
					}
					rg.Wait()
					tm.Stop()
				}
			}(g)
		}
		if round%3 == 0 {
			time.Sleep(time.Duration(round%7) * 50 * time.Microsecond)
		}
		_ = s.Stop()
		wg.Wait()
	}
}

// broadcaster: Broadcast from several goroutines, block notifications, MarkAsConfirmed while running, Stop
func wlBroadcaster(seed int64, budget int) {
	for round := 0; round < 20*budget; round++ {
		ntfns := make(chan blockntfns.BlockNtfn, 8)
		b := pushtx.NewBroadcaster(&pushtx.Config{
			Broadcast: func(*wire.MsgTx) error { return nil },
			SubscribeBlocks: func() (*blockntfns.Subscription, error) {
				return &blockntfns.Subscription{Notifications: ntfns, Cancel: func() {}}, nil
			},
			RebroadcastInterval: time.Millisecond,
		})
		if b.Start() != nil {
			return
		}
		var wg sync.WaitGroup
		for g := 0; g < 3; g++ {
			wg.Add(1)
			go func(g int) {
				defer wg.Done()
				for i := 0; i < 5; i++ {
					tx := wire.NewMsgTx(2)
					tx.AddTxIn(&wire.TxIn{PreviousOutPoint: wire.OutPoint{Index: uint32(g*10 + i)}})
					tx.AddTxOut(&wire.TxOut{Value: int64(i)})
					if b.Broadcast(tx) != nil {
						return
					}
					if i == 2 {
						done := make(chan struct{})
						go func() { b.MarkAsConfirmed(tx.TxHash()); close(done) }()
						select {
						case <-done:
						case <-time.After(20 * time.Millisecond): // F8 (C17): leaked on purpose
						}
					}
				}
			}(g)
		}
		ntfns <- blockntfns.NewBlockConnected(wire.BlockHeader{}, 1)
		wg.Wait()
		b.Stop()
	}
}
