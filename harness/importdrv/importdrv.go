// Package importdrv drives the REAL chainimport importer (public API:
// chainimport.NewHeadersImport + Import, exactly as neutrino.go does) against
// REAL headerfs stores in a temp dir and generated header files on disk.
// Output: line protocol (package tr).
//
//	case <n> s <bstart> sf <fstart> bs <batch> bnet <k> fnet <k> btyp <k> ftyp <k> open <0|1> failb <k|-> failf <k|-> kind <tag>
//	pre    => b <tip|ERR> [id:prev:valid ...] f <tip|ERR> [fid ...]
//	file   => b [id:prev:valid ...] f [fid ...]
//	import => ok | err <class>
//	dump   => b <tip|ERR> [...] f <tip|ERR> [...]
//	import => ...      (second, identical import)
//	dump   => ...
//
// Block hashes and filter hashes are interned to small naturals in order of
// first appearance within a case (0 = the all-zero hash).
package importdrv

import (
	"context"
	"encoding/binary"
	"errors"
	"fmt"
	"io"
	"math/rand"
	"os"
	"path/filepath"
	"strings"
	"time"

	"github.com/btcsuite/btcd/blockchain"
	"github.com/btcsuite/btcd/chaincfg/v2"
	"github.com/btcsuite/btcd/chainhash/v2"
	"github.com/btcsuite/btcd/wire/v2"
	"github.com/btcsuite/btcwallet/walletdb"
	_ "github.com/btcsuite/btcwallet/walletdb/bdb"
	"github.com/lightninglabs/neutrino/chainimport"
	"github.com/lightninglabs/neutrino/headerfs"
	"verifharness/tr"
)

func init() { tr.Register("import", Run) }

var params = func() chaincfg.Params {
	p := chaincfg.RegressionNetParams // PowLimitBits 0x207fffff, no retargeting
	return p
}()

// ---------------------------------------------------------------- headers

func powOK(h *wire.BlockHeader) bool {
	hash := h.BlockHash()
	return blockchain.HashToBig(&hash).Cmp(blockchain.CompactToBig(h.Bits)) <= 0
}

// mine builds a header on prev at the given height; good selects whether its
// proof of work is to be valid.
// A header is fully valid when it passes btcd's CheckBlockHeaderSanity (proof
// of work for its own bits) AND CheckBlockHeaderContext (bits = the expected
// difficulty, timestamp after the median of its ancestors).  The generator's
// chains use the rule timestamp(height) = genesis + height*10min, so a header is
// contextually valid iff its bits are the pow limit and its timestamp is not
// before genesis.
func fullyValid(h *wire.BlockHeader) bool {
	return powOK(h) && h.Bits == params.PowLimitBits &&
		!h.Timestamp.Before(params.GenesisBlock.Header.Timestamp)
}

// mine builds a header on prev at the given height.  defect: "" (valid), "pow"
// (hash above target, link intact), "bits" (valid proof of work for a WRONG
// difficulty), "time" (timestamp before the median of its ancestors).
func mineD(r *rand.Rand, prev chainhash.Hash, height uint32, defect string) wire.BlockHeader {
	var mr chainhash.Hash
	r.Read(mr[:])
	h := wire.BlockHeader{
		Version:    0x20000000,
		PrevBlock:  prev,
		MerkleRoot: mr,
		Timestamp:  params.GenesisBlock.Header.Timestamp.Add(time.Duration(height) * 10 * time.Minute),
		Bits:       params.PowLimitBits,
	}
	switch defect {
	case "bits":
		h.Bits = 0x203fffff // half the pow limit's target: in range, but not the expected difficulty
	case "time":
		h.Timestamp = params.GenesisBlock.Header.Timestamp.Add(-time.Hour)
	}
	for powOK(&h) != (defect != "pow") {
		h.Nonce++
	}
	return h
}

func mine(r *rand.Rand, prev chainhash.Hash, height uint32, good bool) wire.BlockHeader {
	if good {
		return mineD(r, prev, height, "")
	}
	return mineD(r, prev, height, "pow")
}

func randHash(r *rand.Rand) chainhash.Hash {
	var h chainhash.Hash
	r.Read(h[:])
	return h
}

// ---------------------------------------------------------------- interning

type intern struct {
	m map[chainhash.Hash]int
}

func newIntern() *intern { return &intern{m: map[chainhash.Hash]int{{}: 0}} }
func (in *intern) id(h chainhash.Hash) int {
	if v, ok := in.m[h]; ok {
		return v
	}
	v := len(in.m)
	in.m[h] = v
	return v
}

type names struct{ b, f *intern }

func (n *names) blk(h *wire.BlockHeader) string {
	v := 0
	if fullyValid(h) {
		v = 1
	}
	// the header's own id first, so that ids follow the order of appearance
	id := n.b.id(h.BlockHash())
	return fmt.Sprintf("%d:%d:%d", id, n.b.id(h.PrevBlock), v)
}

// ---------------------------------------------------------------- stores with injectable write failures

var errInjected = errors.New("injected write failure")

type failBlockStore struct {
	headerfs.BlockHeaderStore
	failAt int // fail the failAt-th non-empty WriteHeaders call (0-based); <0 never
	calls  int
}

func (s *failBlockStore) WriteHeaders(h ...headerfs.BlockHeader) error {
	if len(h) > 0 {
		k := s.calls
		s.calls++
		if k == s.failAt {
			return errInjected
		}
	}
	return s.BlockHeaderStore.WriteHeaders(h...)
}

type failFilterStore struct {
	headerfs.FilterHeaderStore
	failAt int
	calls  int
}

func (s *failFilterStore) WriteHeaders(h ...headerfs.FilterHeader) error {
	if len(h) > 0 {
		k := s.calls
		s.calls++
		if k == s.failAt {
			return errInjected
		}
	}
	return s.FilterHeaderStore.WriteHeaders(h...)
}

// ---------------------------------------------------------------- world

type world struct {
	dir string
	db  walletdb.DB
	bs  headerfs.BlockHeaderStore
	fs  headerfs.FilterHeaderStore
}

// template holds a directory with freshly initialised stores (genesis only);
// creating the index pre-creates 65536 sub-buckets, so it is built once per run
// and copied for every case.
var template string

func makeTemplate() error {
	dir, err := os.MkdirTemp("", "importdrv-tpl-")
	if err != nil {
		return err
	}
	db, err := walletdb.Create("bdb", filepath.Join(dir, "idx.db"), false, 10*time.Second, false)
	if err != nil {
		return err
	}
	if _, err := headerfs.NewBlockHeaderStore(dir, db, &params); err != nil {
		return err
	}
	if _, err := headerfs.NewFilterHeaderStore(dir, db, headerfs.RegularFilter, &params, nil); err != nil {
		return err
	}
	if err := db.Close(); err != nil {
		return err
	}
	template = dir
	return nil
}

func newWorld() (*world, error) {
	if template == "" {
		if err := makeTemplate(); err != nil {
			return nil, err
		}
	}
	dir, err := os.MkdirTemp("", "importdrv-")
	if err != nil {
		return nil, err
	}
	for _, f := range []string{"idx.db", "block_headers.bin", "reg_filter_headers.bin"} {
		b, err := os.ReadFile(filepath.Join(template, f))
		if err != nil {
			return nil, err
		}
		if err := os.WriteFile(filepath.Join(dir, f), b, 0o644); err != nil {
			return nil, err
		}
	}
	db, err := walletdb.Open("bdb", filepath.Join(dir, "idx.db"), false, 10*time.Second, false)
	if err != nil {
		return nil, err
	}
	bs, err := headerfs.NewBlockHeaderStore(dir, db, &params)
	if err != nil {
		return nil, err
	}
	fs, err := headerfs.NewFilterHeaderStore(dir, db, headerfs.RegularFilter, &params, nil)
	if err != nil {
		return nil, err
	}
	return &world{dir: dir, db: db, bs: bs, fs: fs}, nil
}

func (w *world) close() {
	w.db.Close()
	os.RemoveAll(w.dir)
}

func fileLen(path string, sz int64) int {
	st, err := os.Stat(path)
	if err != nil {
		return 0
	}
	return int(st.Size() / sz)
}

func (w *world) dump(n *names) string {
	var sb strings.Builder
	sb.WriteString("b ")
	if _, h, err := w.bs.ChainTip(); err != nil {
		sb.WriteString("ERR")
	} else {
		fmt.Fprintf(&sb, "%d", h)
	}
	nb := fileLen(filepath.Join(w.dir, "block_headers.bin"), 80)
	var bl []string
	for i := 0; i < nb; i++ {
		h, err := w.bs.FetchHeaderByHeight(uint32(i))
		if err != nil {
			bl = append(bl, "?")
			continue
		}
		bl = append(bl, n.blk(h))
	}
	sb.WriteString(" [" + strings.Join(bl, " ") + "] f ")
	if _, h, err := w.fs.ChainTip(); err != nil {
		sb.WriteString("ERR")
	} else {
		fmt.Fprintf(&sb, "%d", h)
	}
	nf := fileLen(filepath.Join(w.dir, "reg_filter_headers.bin"), 32)
	var fl []string
	for i := 0; i < nf; i++ {
		h, err := w.fs.FetchHeaderByHeight(uint32(i))
		if err != nil {
			fl = append(fl, "?")
			continue
		}
		fl = append(fl, fmt.Sprint(n.f.id(*h)))
	}
	sb.WriteString(" [" + strings.Join(fl, " ") + "]")
	return sb.String()
}

// ---------------------------------------------------------------- files

func writeFile(path string, magic uint32, typ byte, start uint32, body []byte) error {
	buf := make([]byte, 10, 10+len(body))
	binary.LittleEndian.PutUint32(buf[0:], magic)
	buf[4] = 0 // version
	buf[5] = typ
	binary.LittleEndian.PutUint32(buf[6:], start)
	return os.WriteFile(path, append(buf, body...), 0o644)
}

func classify(err error) string {
	if err == nil {
		return "ok"
	}
	s := err.Error()
	has := func(x string) bool { return strings.Contains(s, x) }
	if has("context canceled") {
		return "err cancel"
	}
	switch {
	case has("failed to open sources"):
		return "err open"
	case has("network mismatch"), has("network type mismatch"):
		return "err net"
	case has("incorrect block header type"), has("incorrect filter header type"):
		return "err type"
	case has("start height mismatch"):
		return "err start"
	case has("headers count mismatch"):
		return "err count"
	case has("failed to validate continuity"):
		switch {
		case has("creating a gap"):
			return "err gap"
		case has("chain tip"):
			return "err tip"
		case has("failed to validate header connection"):
			return "err conn"
		case has("failed to verify"):
			return "err mismatch"
		}
		return "err continuity-other"
	case has("failed to validate block headers"):
		return "err invalid"
	case has("failed to validate filter headers"):
		return "err finvalid"
	case has("failed to determine processing regions"):
		return "err tip"
	case has("headers processing failed"):
		switch {
		case has("failed to verify headers at target height"):
			return "err mismatch"
		case has("failed to rollback"):
			return "err rbfail"
		case has("failed to write filter headers"):
			return "err fwrite"
		case has("failed to write block headers"):
			return "err bwrite"
		case has("batch at height"):
			return "err read"
		case has("mismatch between target block header chain tip height"):
			return "err tipmis"
		case has("chain tip"):
			return "err tip"
		}
		return "err process-other"
	}
	return "err other"
}

type fileSpec struct {
	bstart, fstart uint32
	bnet, fnet     int // 0 = the target network, 1 = mainnet, 2 = testnet3
	btyp, ftyp     int // 0 = correct, 1 = swapped
	blocks         []wire.BlockHeader
	filters        []chainhash.Hash
	truncB         int // bytes cut off the block file's end
	noHeaders      bool
}

var magics = []uint32{uint32(params.Net), uint32(wire.MainNet), uint32(wire.TestNet3)}

func (fsp *fileSpec) write(dir string) (string, string, error) {
	var bb, fb []byte
	for i := range fsp.blocks {
		var sb strings.Builder
		_ = sb
		w := &byteW{}
		if err := fsp.blocks[i].Serialize(w); err != nil {
			return "", "", err
		}
		bb = append(bb, w.b...)
	}
	for i := range fsp.filters {
		fb = append(fb, fsp.filters[i][:]...)
	}
	if fsp.noHeaders {
		bb = nil
	} else if fsp.truncB > 0 && len(bb) > fsp.truncB {
		bb = bb[:len(bb)-fsp.truncB]
	}
	bt, ft := byte(headerfs.Block), byte(headerfs.RegularFilter)
	if fsp.btyp == 1 {
		bt = byte(headerfs.RegularFilter)
	}
	if fsp.ftyp == 1 {
		ft = byte(headerfs.Block)
	}
	bp, fp := filepath.Join(dir, "import-block.bin"), filepath.Join(dir, "import-filter.bin")
	if err := writeFile(bp, magics[fsp.bnet], bt, fsp.bstart, bb); err != nil {
		return "", "", err
	}
	if err := writeFile(fp, magics[fsp.fnet], ft, fsp.fstart, fb); err != nil {
		return "", "", err
	}
	return bp, fp, nil
}

type byteW struct{ b []byte }

func (w *byteW) Write(p []byte) (int, error) { w.b = append(w.b, p...); return len(p), nil }

// pollCtx is a context whose cancellation is driven by how often it has been
// polled: from the cancelAt-th call of Done() on (0-based) it is cancelled, for
// good.  The importer looks at its context in exactly three places (once per
// batch in each of the two validators, once per iteration of the write loop),
// always through Done(); so "cancelled at poll k" names every point at which a
// cancellation can first be noticed: k = 0 before anything, k inside the
// block-header validation, inside the filter-header validation, at the first
// write batch, between two write batches, after the last one.
type pollCtx struct {
	cancelAt int // < 0: never
	polls    int
	closed   chan struct{}
	open     chan struct{}
}

func newPollCtx(cancelAt int) *pollCtx {
	c := &pollCtx{cancelAt: cancelAt, closed: make(chan struct{}), open: make(chan struct{})}
	close(c.closed)
	return c
}

func (c *pollCtx) cancelled() bool { return c.cancelAt >= 0 && c.polls > c.cancelAt }

func (c *pollCtx) Deadline() (time.Time, bool) { return time.Time{}, false }
func (c *pollCtx) Done() <-chan struct{} {
	c.polls++
	if c.cancelled() {
		return c.closed
	}
	return c.open
}
func (c *pollCtx) Err() error {
	if c.cancelled() {
		return context.Canceled
	}
	return nil
}
func (c *pollCtx) Value(any) any { return nil }

// readFault makes the import SOURCE fail while the importer is at work: once
// the importer's context has been polled more than `poll` times (the importer
// polls once per batch in each validator and once per iteration of the write
// loop, so poll 2*nbat+j names the j-th iteration of the write loop), every
// read of the header with file index >= from of one of the two import files
// fails the way a file that has become shorter than its mapping (or a failing
// disk) does.  The failure is injected BELOW the real file source, so the
// error wrapping of GetHeader, the iterators and the write loop are the code's
// own.
type readFault struct {
	block bool
	poll  int
	from  int
	kind  string // eof: (0, io.EOF); eofpart: half the bytes and io.EOF; ueof: io.ErrUnexpectedEOF; eio: an unrelated I/O error
}

type faultyImportFile struct {
	chainimport.ImportHeadersFile
	block bool
	rf    *readFault
	ctx   *pollCtx
	hits  *int
}

func (f *faultyImportFile) ReadAt(p []byte, off int64) (int, error) {
	rf := f.rf
	if rf != nil && rf.block == f.block && off >= chainimport.ImportMetadataSize && f.ctx.polls > rf.poll {
		sz := int64(32)
		if f.block {
			sz = 80
		}
		if int((off-chainimport.ImportMetadataSize)/sz) >= rf.from {
			*f.hits++
			switch rf.kind {
			case "eof":
				return 0, io.EOF
			case "eofpart":
				n, _ := f.ImportHeadersFile.ReadAt(p[:len(p)/2], off)
				return n, io.EOF
			case "ueof":
				return 0, io.ErrUnexpectedEOF
			default:
				return 0, errors.New("input/output error")
			}
		}
	}
	return f.ImportHeadersFile.ReadAt(p, off)
}

// runImport runs the real importer with a watchdog.
func runImport(w *world, bp, fp string, bs int, failB, failF, cancelAt int) string {
	return runImportRF(w, bp, fp, bs, failB, failF, cancelAt, nil)
}

func runImportRF(w *world, bp, fp string, bs int, failB, failF, cancelAt int, rf *readFault) string {
	type res struct{ s string }
	ch := make(chan res, 1)
	go func() {
		defer func() {
			if r := recover(); r != nil {
				ch <- res{"PANIC"}
			}
		}()
		opts := &chainimport.ImportOptions{
			TargetChainParams:       params,
			TargetBlockHeaderStore:  &failBlockStore{BlockHeaderStore: w.bs, failAt: failB},
			TargetFilterHeaderStore: &failFilterStore{FilterHeaderStore: w.fs, failAt: failF},
			BlockHeadersSource:      bp,
			FilterHeadersSource:     fp,
			WriteBatchSizePerRegion: bs,
		}
		imp, err := chainimport.NewHeadersImport(opts)
		if err != nil {
			ch <- res{"err options"}
			return
		}
		ctx := newPollCtx(cancelAt)
		hits := 0
		if rf != nil {
			ok := chainimport.VerifWrapSourceFiles(imp, func(block bool, f chainimport.ImportHeadersFile) chainimport.ImportHeadersFile {
				return &faultyImportFile{ImportHeadersFile: f, block: block, rf: rf, ctx: ctx, hits: &hits}
			})
			if !ok {
				ch <- res{"err options"}
				return
			}
		}
		_, err = imp.Import(ctx)
		if rf != nil && hits > 0 {
			rfHit = true
		}
		ch <- res{classify(err)}
	}()
	select {
	case r := <-ch:
		return r.s
	case <-time.After(20 * time.Second):
		return "HANG"
	}
}

// rfHit: the last import ran into its injected read fault
var rfHit bool

// ---------------------------------------------------------------- generator

func pick[T any](r *rand.Rand, xs ...T) T { return xs[r.Intn(len(xs))] }

func optStr(k int) string {
	if k < 0 {
		return "-"
	}
	return fmt.Sprint(k)
}

// directive pins the choices of a directed corpus case (nil: random case).
type directive struct {
	name   string
	bTip   int
	ahead  int    // block store ahead of the filter store by this many
	kind   string // file kind
	pos    string // "first-new": corruption exactly at min(tips)+1
	bs     int
	length int // headers above the lower tip
	cancel int // poll at which the context is cancelled (0 = not at all, k+1 = poll k)

	// read fault of an import source in the write phase (rfKind != ""): armed at the rfIter-th iteration of the write
	// loop, from the header rfOff places above the first new one
	rfKind  string
	rfBlock bool
	rfIter  int
	rfOff   int
}

// corpus: directed cases run at the start of every run.  "first new header bad
// PoW": the invalid header (link intact, valid headers building on it) is exactly
// the first header the import would write.
var corpus = func() []directive {
	var out []directive
	for _, kind := range []string{"badpow", "badbits", "badtime", "badprev"} {
		for _, bTip := range []int{0, 3} {
			for _, bs := range []int{1, 2, 3, 1000} {
				out = append(out, directive{name: "first-new-" + kind, bTip: bTip, kind: kind, pos: "first-new", bs: bs, length: 4})
			}
		}
		out = append(out, directive{name: "first-new-" + kind + "-block-ahead", bTip: 4, ahead: 2, kind: kind, pos: "first-new", bs: 2, length: 5})
	}
	// batch size left unset: honest file from height 0 extending level stores
	for _, bTip := range []int{0, 3} {
		for _, bs := range []int{0, -1} {
			out = append(out, directive{name: "batch-size-unset", bTip: bTip, kind: "honest", bs: bs, length: 4})
		}
	}
	// the context is cancelled before / during validation and the file is corrupt after the point validation had
	// reached: nothing of it may reach the stores, whatever the batch size
	for _, kind := range []string{"badprev", "badpow", "honest"} {
		for _, bs := range []int{2, 1000} {
			for _, cancel := range []int{1, 2, 3} {
				out = append(out, directive{name: "cancel-validation-" + kind, bTip: 2, kind: kind, pos: "first-new",
					bs: bs, length: 5, cancel: cancel})
			}
		}
	}
	// block store ahead of the filter store (the state of a node still syncing filter headers, and the state a crash
	// between a batch's two writes leaves): honest file from height 0 ending below the block tip, at it, above it
	for _, ahead := range []int{1, 5} {
		for _, bs := range []int{1, 2, 1000} {
			for _, length := range []int{max(1, ahead-2), ahead, ahead + 3} {
				out = append(out, directive{name: fmt.Sprintf("block-ahead-%d-honest", ahead), bTip: 8, ahead: ahead,
					kind: "honest", bs: bs, length: length})
			}
		}
	}
	return out
}()

func oneCase(t *tr.W, r *rand.Rand, forceKind string) { oneCaseD(t, r, forceKind, nil) }

func oneCaseD(t *tr.W, r *rand.Rand, forceKind string, dir *directive) {
	if dir != nil {
		forceKind = dir.kind
	}
	// "focus" cases: an honest file from height 0 that extends level stores in
	// several batches, with a write failure injected into one of them
	focus := forceKind == "" && r.Intn(7) == 0
	if focus {
		forceKind = "honest"
	}
	w, err := newWorld()
	if err != nil {
		panic(err)
	}
	defer w.close()
	n := &names{b: newIntern(), f: newIntern()}

	// ---- the chain the store holds, and the store heights
	bTip := pick(r, 0, 0, 1, 2, 3, 4, 5, 6, 8)
	fTip := bTip
	rollback := 0
	preKind := r.Intn(10)
	if focus {
		preKind = 9
	}
	if dir != nil {
		bTip, fTip, preKind = dir.bTip, dir.bTip, 9
		if dir.ahead > 0 {
			fTip = bTip - dir.ahead
			preKind = 99
			t.Hit("pre.block-ahead")
		}
	}
	switch preKind {
	case 99: // directed: heights already chosen
	case 0, 1: // block store ahead
		d := 1 + r.Intn(3)
		if bTip >= d {
			fTip = bTip - d
		} else {
			bTip += d
		}
		t.Hit("pre.block-ahead")
	case 2: // filter store "ahead": roll the block store back afterwards
		rollback = 1 + r.Intn(2)
		bTip += rollback
		fTip = bTip
		t.Hit("pre.filter-ahead")
	default:
		t.Hit("pre.equal")
	}
	genesis := params.GenesisBlock.Header
	chain := []wire.BlockHeader{genesis} // the store's chain, by height
	for h := 1; h <= bTip; h++ {
		chain = append(chain, mine(r, chain[h-1].BlockHash(), uint32(h), true))
	}
	g0, err := w.fs.FetchHeaderByHeight(0)
	if err != nil {
		panic(err)
	}
	fchain := []chainhash.Hash{*g0}
	for h := 1; h <= bTip+16; h++ {
		fchain = append(fchain, randHash(r))
	}
	if bTip > 0 {
		hs := make([]headerfs.BlockHeader, 0, bTip)
		for h := 1; h <= bTip; h++ {
			hh := chain[h]
			hs = append(hs, headerfs.BlockHeader{BlockHeader: &hh, Height: uint32(h)})
		}
		if err := w.bs.WriteHeaders(hs...); err != nil {
			panic(err)
		}
	}
	if fTip > 0 {
		fh := make([]headerfs.FilterHeader, 0, fTip)
		for h := 1; h <= fTip; h++ {
			fh = append(fh, headerfs.FilterHeader{FilterHash: fchain[h], Height: uint32(h)})
		}
		fh[len(fh)-1].HeaderHash = chain[fTip].BlockHash()
		if err := w.fs.WriteHeaders(fh...); err != nil {
			panic(err)
		}
	}
	if rollback > 0 {
		if _, err := w.bs.RollbackBlockHeaders(uint32(rollback)); err != nil {
			panic(err)
		}
		bTip -= rollback
	}
	eff := min(bTip, fTip)

	// ---- the file
	kind := forceKind
	if kind == "" {
		kind = pick(r, "honest", "honest", "honest", "honest", "honest", "badprev", "badpow", "badbits", "badtime", "fork", "fmismatch",
			"net", "net2", "type", "startmis", "countmis", "trunc", "empty", "gap", "midfilter")
	}
	var s int
	switch r.Intn(8) {
	case 0, 1, 2:
		s = 0
	case 3:
		s = min(1, eff+1)
	case 4, 5:
		s = eff + 1
	default:
		s = r.Intn(eff + 2)
	}
	if kind == "gap" {
		s = eff + 2 + r.Intn(3)
	}
	if focus || dir != nil {
		s = 0
	}
	length := pick(r, 1, 2, 3, 4, 5, 7, 9, 12)
	if focus {
		length = eff + 1 + pick(r, 2, 3, 4, 5, 7)
	}
	if dir != nil {
		length = eff + 1 + dir.length
	}
	if dir == nil && r.Intn(3) > 0 && s+length-1 <= eff {
		length = eff - s + 1 + 1 + r.Intn(6) // make it extend the stores most of the time
	}
	e := s + length - 1
	// file chain by height: the store's chain, continued
	fileChain := append([]wire.BlockHeader{}, chain...)
	for h := len(fileChain); h <= e; h++ {
		fileChain = append(fileChain, mine(r, fileChain[h-1].BlockHash(), uint32(h), true))
	}
	for len(fileChain) <= e { // (gap: heights above the store tip have no parent in the store; chain them anyway)
		h := len(fileChain)
		fileChain = append(fileChain, mine(r, fileChain[h-1].BlockHash(), uint32(h), true))
	}
	ffile := append([]chainhash.Hash{}, fchain...)
	for len(ffile) <= e {
		ffile = append(ffile, randHash(r))
	}
	remine := func(from int, prev chainhash.Hash, defect string) {
		// replace heights from.. by fresh headers on prev; only the first carries the defect
		for h := from; h <= e; h++ {
			d := ""
			if h == from {
				d = defect
			}
			fileChain[h] = mineD(r, prev, uint32(h), d)
			prev = fileChain[h].BlockHash()
		}
	}
	spec := &fileSpec{bstart: uint32(s), fstart: uint32(s)}
	switch kind {
	case "badprev", "badpow", "badbits", "badtime":
		// one invalid header, valid headers building on it.  Every position of
		// the file is eligible; 2 in 5 cases (and the directed ones) put it
		// exactly on the first header the import would write: min(tips)+1.
		p := s + r.Intn(length)
		if firstNew := eff + 1; firstNew >= s && firstNew <= e &&
			((dir != nil && dir.pos == "first-new") || r.Intn(5) < 2) {

			p = firstNew
		}
		if p == 0 {
			p = min(1, e)
		}
		defect := map[string]string{"badprev": "", "badpow": "pow", "badbits": "bits", "badtime": "time"}[kind]
		if p == s && (defect == "bits" || defect == "time") {
			// the file's first header is only ever sanity-checked (never in
			// context); the model's single `valid` flag stands for both, so
			// context-only defects are not placed on file index 0
			defect = "pow"
		}
		if p > 0 {
			prev := fileChain[p-1].BlockHash()
			if kind == "badprev" {
				prev = randHash(r)
			}
			remine(p, prev, defect)
			switch {
			case p == eff+1:
				t.Hit("corrupt-at.first-new")
			case p <= eff:
				t.Hit("corrupt-at.overlap")
			default:
				t.Hit("corrupt-at.later")
			}
		}
	case "fork":
		p := 1 + r.Intn(max(1, min(e, bTip)))
		if p <= e {
			remine(p, fileChain[p-1].BlockHash(), "")
		}
	case "fmismatch":
		p := s + r.Intn(length)
		ffile[p] = randHash(r)
	case "midfilter":
		// filter header differing from the store strictly inside the overlap
		if eff-s >= 2 {
			ffile[s+1+r.Intn(eff-s-1)] = randHash(r)
		}
	case "net":
		spec.bnet, spec.fnet = pick(r, 1, 2), 0
		if r.Intn(2) == 0 {
			spec.bnet, spec.fnet = 0, pick(r, 1, 2)
		}
	case "net2":
		spec.bnet = pick(r, 1, 2)
		spec.fnet = spec.bnet
	case "type":
		if r.Intn(2) == 0 {
			spec.ftyp = 1
		} else {
			spec.btyp = 1
		}
	case "startmis":
		spec.fstart = uint32(s + 1)
	case "trunc":
		spec.truncB = 1 + r.Intn(79)
	case "empty":
		spec.noHeaders = true
	}
	spec.blocks = append(spec.blocks, fileChain[s:e+1]...)
	spec.filters = append(spec.filters, ffile[s:e+1]...)
	if kind == "countmis" {
		if r.Intn(2) == 0 || len(spec.filters) == 1 {
			spec.filters = append(spec.filters, randHash(r))
		} else {
			spec.filters = spec.filters[:len(spec.filters)-1]
		}
	}
	if spec.btyp == 1 || spec.ftyp == 1 {
		// a swapped type makes the reader cut the body in the other record size; keep both bodies multiples of 80 and 32
		for len(spec.blocks)%2 != 0 {
			spec.blocks = spec.blocks[:len(spec.blocks)-1]
			spec.filters = spec.filters[:len(spec.filters)-1]
		}
		for len(spec.filters)%5 != 0 {
			spec.filters = append(spec.filters, randHash(r))
		}
		if len(spec.blocks) == 0 {
			spec.btyp, spec.ftyp = 0, 0
			spec.blocks = append(spec.blocks, fileChain[s:e+1]...)
			spec.filters = append([]chainhash.Hash{}, ffile[s:e+1]...)
			kind = "honest"
		}
	}
	// 0 / negative: WriteBatchSizePerRegion left unset - NewHeadersImport fills in its default (what neutrino's own
	// Config does unless the user sets a batch size)
	bs := pick(r, 1, 1, 2, 2, 3, 7, 1000, 0, 0, -1)
	failB, failF := -1, -1
	switch r.Intn(8) {
	case 0:
		failF = r.Intn(3)
	case 1:
		failB = r.Intn(3)
	}
	if dir != nil {
		bs, failB, failF = dir.bs, -1, -1
		t.Hit("directed." + dir.name)
	}
	if focus {
		bs = pick(r, 1, 2, 3)
		failB, failF = -1, -1
		if r.Intn(3) == 0 {
			failB = r.Intn(2)
		} else {
			failF = r.Intn(2)
		}
		t.Hit("focus")
	}
	bp, fp, err := spec.write(w.dir)
	if err != nil {
		panic(err)
	}
	openOK := 1
	if spec.noHeaders || spec.truncB > 0 {
		openOK = 0
	}
	// context cancellation: noticed first at poll `cancelAt` (see pollCtx)
	cancelAt := -1
	effBs := bs
	if effBs <= 0 {
		effBs = 65536 // chainimport's defaultWriteBatchSizePerRegion (the Lean side takes it from the regenerated facts)
	}
	nbat := (len(spec.blocks) + effBs - 1) / effBs
	if dir != nil {
		cancelAt = dir.cancel - 1
	} else if !focus && r.Intn(4) == 0 {
		switch r.Intn(6) {
		case 0:
			cancelAt = 0 // before anything
		case 1:
			cancelAt = r.Intn(max(1, nbat)) // during the block-header validation
		case 2:
			cancelAt = nbat + r.Intn(max(1, nbat)) // during the filter-header validation
		case 3:
			cancelAt = 2 * nbat // at the first write batch
		case 4:
			cancelAt = 2*nbat + 1 + r.Intn(3) // between two write batches
		default:
			cancelAt = 2*nbat + 1 + r.Intn(2*nbat+2) // possibly after the last one
		}
	}
	if cancelAt >= 0 {
		switch {
		case cancelAt == 0:
			t.Hit("cancel.before")
		case cancelAt < nbat:
			t.Hit("cancel.block-validation")
		case cancelAt < 2*nbat:
			t.Hit("cancel.filter-validation")
		case cancelAt == 2*nbat:
			t.Hit("cancel.first-write")
		default:
			t.Hit("cancel.later")
		}
	}
	var rf *readFault
	rfs, rfp, rfi, rfk := "-", "-", "-", "-"
	if dir != nil && dir.rfKind != "" {
		rf = &readFault{block: dir.rfBlock, poll: 2*nbat + dir.rfIter, from: eff + 1 - s + dir.rfOff, kind: dir.rfKind}
		rfs, rfp, rfi, rfk = "1", fmt.Sprint(rf.poll), fmt.Sprint(rf.from), rf.kind
		if rf.block {
			rfs = "0"
		}
		t.Hit("readfault.kind." + rf.kind)
		t.Hit("readfault.side." + map[bool]string{true: "block", false: "filter"}[rf.block])
		switch {
		case rf.from >= len(spec.blocks):
			t.Hit("readfault.at.beyond-file")
		case rf.from == len(spec.blocks)-1:
			t.Hit("readfault.at.last-header")
		case dir.rfOff%effBs == 0:
			t.Hit("readfault.at.batch-start")
		case (dir.rfOff+1)%effBs == 0:
			t.Hit("readfault.at.batch-end")
		default:
			t.Hit("readfault.at.mid-batch")
		}
	}
	t.Case("s %d sf %d bs %d bnet %d fnet %d btyp %d ftyp %d open %d failb %s failf %s cancel %s rfs %s rfp %s rfi %s rfk %s kind %s",
		spec.bstart, spec.fstart, bs, spec.bnet, spec.fnet, spec.btyp, spec.ftyp, openOK, optStr(failB), optStr(failF),
		optStr(cancelAt), rfs, rfp, rfi, rfk, kind)
	t.Hit("kind." + kind)
	t.Hit(fmt.Sprintf("bs.%d", bs))
	switch {
	case s == 0:
		t.Hit("start.0")
	case s == eff+1:
		t.Hit("start.tip+1")
	case s > eff+1:
		t.Hit("start.gap")
	default:
		t.Hit("start.overlap>0")
	}
	if failB >= 0 {
		t.Hit("inject.block-write")
	}
	if failF >= 0 {
		t.Hit("inject.filter-write")
	}
	t.Op("pre", w.dump(n))
	var bl, fl []string
	for i := range spec.blocks {
		bl = append(bl, n.blk(&spec.blocks[i]))
	}
	for i := range spec.filters {
		fl = append(fl, fmt.Sprint(n.f.id(spec.filters[i])))
	}
	t.Op("file", "b ["+strings.Join(bl, " ")+"] f ["+strings.Join(fl, " ")+"]")
	rfHit = false
	r1 := runImportRF(w, bp, fp, bs, failB, failF, cancelAt, rf)
	if rf != nil {
		t.Hit(fmt.Sprintf("readfault.reached.%v", rfHit))
	}
	t.Hit("result." + strings.ReplaceAll(r1, " ", "-"))
	t.Op("import", r1)
	t.Op("dump", w.dump(n))
	// the second, identical import (no injected failures: "repeating the import changes nothing")
	r2 := runImport(w, bp, fp, bs, -1, -1, -1)
	t.Hit("result2." + strings.ReplaceAll(r2, " ", "-"))
	t.Op("import", r2)
	t.Op("dump", w.dump(n))
}

// readFaultCases: honest files whose SOURCE starts failing in the middle of the
// write phase - at the first, a middle and the last iteration of the write
// loop, from a header at a batch start, inside a batch, at a batch end, the
// last header of the file and beyond it (never reached) - on either file, with
// every kind of read error, for level stores and for a block store that is
// ahead.  An import may only report success if both stores end up holding the
// file up to its end.  The cases draw from a PRNG stream of their own.
func readFaultCases(t *tr.W, thorough bool) {
	r := tr.Rng(1414)
	kinds := []string{"eof", "eofpart", "ueof", "eio"}
	k := 0
	for _, bs := range []int{1, 2, 3, 4, 1000, 0} {
		for _, length := range []int{1, 5, 8} {
			ebs := bs
			if ebs <= 0 || ebs > length {
				ebs = length
			}
			nIter := (length + ebs - 1) / ebs
			iters := []int{0}
			if nIter > 2 {
				iters = append(iters, nIter/2)
			}
			if nIter > 1 {
				iters = append(iters, nIter-1)
			}
			for _, it := range iters {
				// offsets (relative to the first new header) of the first unreadable header: the first header of the
				// batch being read, one inside it, its last, the first of the next batch, the file's last, beyond the file
				offs := map[int]bool{it * ebs: true, it*ebs + ebs/2: true, it*ebs + ebs - 1: true, (it + 1) * ebs: true,
					length - 1: true, length: true}
				for off := 0; off <= length; off++ {
					if !offs[off] {
						continue
					}
					if !thorough && (k+off)%2 == 1 && off != it*ebs && off != length-1 {
						continue
					}
					d := directive{name: "read-fault", bTip: []int{0, 3}[k%2], kind: "honest", bs: bs, length: length,
						rfKind: kinds[k%4], rfBlock: k%3 != 0, rfIter: it, rfOff: off}
					if k%7 == 6 {
						d.bTip, d.ahead = 6, 2 // the divergence region is written first (filter headers only), then the new one
					}
					k++
					oneCaseD(t, r, "", &d)
				}
			}
		}
	}
}

func Run(t *tr.W, thorough bool) {
	r := tr.Rng(14)
	n := 220
	if thorough {
		n = 5000
	}
	n *= tr.EnvInt("VERIF_BUDGET", 1)
	if os.Getenv("VERIF_SEARCH") == "1" {
		// bin/check's search for a failing input after a broken tie: bounded (each case costs ~60 ms of disk I/O)
		n = 1500
	}
	for i := range corpus {
		oneCaseD(t, r, "", &corpus[i])
	}
	readFaultCases(t, thorough)
	for i := 0; i < n; i++ {
		oneCase(t, r, "")
	}
	if template != "" {
		os.RemoveAll(template)
	}
}
