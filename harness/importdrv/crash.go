package importdrv

// Driver "import-crash" (property C08): the REAL chainimport import over REAL
// headerfs stores with the process killed at the k-th durable step of the
// import (flat-file write cut at a torn length / truncate / index transaction),
// then a restart with the real constructors, a dump, and a re-run of the
// import ("resume").  The crash interposition (faultFile / faultDB / crashSig)
// is the one of harness/storedrv, copied here (storedrv is not changed).
//
//	case <n> crashimport mode <genesis|equal|block-ahead> bs <batch> count <file length> k <step> torn <bytes>
//	pre    => B [ids] tb <h|ERR> bj <junk bytes> F [fids] tf <h|ERR> fj <junk bytes>
//	import => crashed | ok | err <class>          (the import under the armed crash)
//	# step <k> <wB|wF|db|trB|trF> len <bytes>       (what the killed step was)
//	restart => ok | err <text>
//	dump   => B [...] ...
//	resume => ok | err <class>                     (the same import again, undisturbed)
//	dump   => B [...] ...
//	heal   => ok                                   (only if resume failed: missing filter headers written directly)
//
// The import file always starts at height 0 and continues the stores' chain;
// block ids and filter-header ids are the heights (one linear chain per world).

import (
	"context"
	"errors"
	"fmt"
	"math/rand"
	"os"
	"path/filepath"
	"strings"
	"time"

	"github.com/btcsuite/btcd/chainhash/v2"
	"github.com/btcsuite/btcd/wire/v2"
	"github.com/btcsuite/btcwallet/walletdb"
	"github.com/lightninglabs/neutrino/chainimport"
	"github.com/lightninglabs/neutrino/headerfs"
	"verifharness/tr"
)

func init() { tr.Register("import-crash", RunCrash) }

type crashSig struct{}

type cworld struct {
	dir    string
	rawDB  walletdb.DB
	db     walletdb.DB
	bs     headerfs.BlockHeaderStore
	fs     headerfs.FilterHeaderStore
	opened []*faultFile

	// durable-step interposition
	inOp      bool
	step      int
	crashStep int // -1 = none
	crashTorn int
	lastKind  string // kind and length of the step that was killed
	lastLen   int

	chain  []wire.BlockHeader // by height = id
	fchain []chainhash.Hash
	bid    map[chainhash.Hash]int
	fid    map[chainhash.Hash]int
}

type faultFile struct {
	headerfs.File
	w    *cworld
	kind string // B or F
}

func (f *faultFile) Write(p []byte) (int, error) {
	w := f.w
	if !w.inOp {
		return f.File.Write(p)
	}
	s := w.step
	w.step++
	if w.crashStep == s {
		t := min(w.crashTorn, len(p))
		w.lastKind, w.lastLen = "w"+f.kind, len(p)
		if t > 0 {
			f.File.Write(p[:t])
		}
		panic(crashSig{})
	}
	return f.File.Write(p)
}

func (f *faultFile) Truncate(sz int64) error {
	w := f.w
	if !w.inOp {
		return f.File.Truncate(sz)
	}
	s := w.step
	w.step++
	if w.crashStep == s {
		w.lastKind, w.lastLen = "tr"+f.kind, int(sz)
		panic(crashSig{})
	}
	return f.File.Truncate(sz)
}

type faultDB struct {
	walletdb.DB
	w *cworld
}

func (d *faultDB) Update(fn func(tx walletdb.ReadWriteTx) error, reset func()) error {
	w := d.w
	if !w.inOp {
		return d.DB.Update(fn, reset)
	}
	s := w.step
	w.step++
	if w.crashStep == s {
		w.lastKind, w.lastLen = "db", 0
		panic(crashSig{})
	}
	return d.DB.Update(fn, reset)
}

var errCrashed = errors.New("crashed")

// kill drops every handle the (simulated) process held.
func (w *cworld) kill() {
	for _, f := range w.opened {
		f.File.Close()
	}
	w.opened = nil
	if w.rawDB != nil {
		w.rawDB.Close()
	}
	w.rawDB, w.db, w.bs, w.fs = nil, nil, nil, nil
}

// open starts both stores with the real constructors; their flat files are
// wrapped at the moment they are opened.
func (w *cworld) open() (err error) {
	defer func() {
		headerfs.VerifOpenFile = nil
		if x := recover(); x != nil {
			if _, ok := x.(crashSig); ok {
				err = errCrashed
			} else {
				err = fmt.Errorf("panic: %v", x)
			}
			w.kill()
		}
	}()
	nopen := 0
	headerfs.VerifOpenFile = func(f headerfs.File) headerfs.File {
		kind := "B"
		if nopen > 0 {
			kind = "F"
		}
		nopen++
		ff := &faultFile{File: f, w: w, kind: kind}
		w.opened = append(w.opened, ff)
		return ff
	}
	db, err := walletdb.Open("bdb", filepath.Join(w.dir, "idx.db"), false, 10*time.Second, false)
	if err != nil {
		return err
	}
	w.rawDB = db
	w.db = &faultDB{DB: db, w: w}
	w.bs, err = headerfs.NewBlockHeaderStore(w.dir, w.db, &params)
	if err != nil {
		w.kill()
		return fmt.Errorf("block store: %w", err)
	}
	w.fs, err = headerfs.NewFilterHeaderStore(w.dir, w.db, headerfs.RegularFilter, &params, nil)
	if err != nil {
		w.kill()
		return fmt.Errorf("filter store: %w", err)
	}
	return nil
}

func newCWorld() *cworld {
	if template == "" {
		if err := makeTemplate(); err != nil {
			panic(err)
		}
	}
	dir, err := os.MkdirTemp("", "importcrash-")
	if err != nil {
		panic(err)
	}
	for _, f := range []string{"idx.db", "block_headers.bin", "reg_filter_headers.bin"} {
		b, err := os.ReadFile(filepath.Join(template, f))
		if err != nil {
			panic(err)
		}
		if err := os.WriteFile(filepath.Join(dir, f), b, 0o644); err != nil {
			panic(err)
		}
	}
	w := &cworld{dir: dir, crashStep: -1, bid: map[chainhash.Hash]int{}, fid: map[chainhash.Hash]int{}}
	if err := w.open(); err != nil {
		panic(err)
	}
	g := params.GenesisBlock.Header
	w.chain = []wire.BlockHeader{g}
	w.bid[g.BlockHash()] = 0
	g0, err := w.fs.FetchHeaderByHeight(0)
	if err != nil {
		panic(err)
	}
	w.fchain = []chainhash.Hash{*g0}
	w.fid[*g0] = 0
	return w
}

func (w *cworld) close() {
	w.kill()
	os.RemoveAll(w.dir)
}

// extend grows the world's chain to the given length (= tip height + 1).
func (w *cworld) extend(r *rand.Rand, n int) {
	for len(w.chain) < n {
		h := len(w.chain)
		hd := mineD(r, w.chain[h-1].BlockHash(), uint32(h), "")
		w.chain = append(w.chain, hd)
		w.bid[hd.BlockHash()] = h
		fh := randHash(r)
		w.fchain = append(w.fchain, fh)
		w.fid[fh] = h
	}
}

func (w *cworld) writeFiles(count int) (string, string) {
	spec := &fileSpec{}
	spec.blocks = append(spec.blocks, w.chain[:count]...)
	spec.filters = append(spec.filters, w.fchain[:count]...)
	bp, fp, err := spec.write(w.dir)
	if err != nil {
		panic(err)
	}
	return bp, fp
}

func (w *cworld) dump() string {
	if w.bs == nil || w.fs == nil {
		return "CLOSED"
	}
	var sb strings.Builder
	one := func(tag string, tipErr error, tipH uint32, path string, width int64, read func(i uint32) (string, error)) {
		st, err := os.Stat(path)
		size := int64(0)
		if err == nil {
			size = st.Size()
		}
		var l []string
		for i := int64(0); i < size/width; i++ {
			s, err := read(uint32(i))
			if err != nil {
				s = "?"
			}
			l = append(l, s)
		}
		tip := "ERR"
		if tipErr == nil {
			tip = fmt.Sprint(tipH)
		}
		fmt.Fprintf(&sb, "%s [%s] t%s %s %sj %d", strings.ToUpper(tag), strings.Join(l, " "), tag, tip, tag, size%width)
	}
	_, bh, berr := w.bs.ChainTip()
	one("b", berr, bh, filepath.Join(w.dir, "block_headers.bin"), 80, func(i uint32) (string, error) {
		h, err := w.bs.FetchHeaderByHeight(i)
		if err != nil {
			return "", err
		}
		id, ok := w.bid[h.BlockHash()]
		if !ok {
			return "?", nil
		}
		// by-hash lookup must agree with the position
		if _, hh, err := w.bs.FetchHeader(func() *chainhash.Hash { x := h.BlockHash(); return &x }()); err != nil || hh != i {
			return "?", nil
		}
		return fmt.Sprint(id), nil
	})
	sb.WriteString(" ")
	_, fh, ferr := w.fs.ChainTip()
	one("f", ferr, fh, filepath.Join(w.dir, "reg_filter_headers.bin"), 32, func(i uint32) (string, error) {
		h, err := w.fs.FetchHeaderByHeight(i)
		if err != nil {
			return "", err
		}
		id, ok := w.fid[*h]
		if !ok {
			return "?", nil
		}
		return fmt.Sprint(id), nil
	})
	return sb.String()
}

// importUnder runs the real importer with the crash armed at durable step k
// (k < 0: undisturbed).  Returns the observation and the number of steps taken.
func (w *cworld) importUnder(bp, fp string, bs, k, torn int) (res string, steps int) {
	w.step, w.crashStep, w.crashTorn, w.inOp = 0, k, torn, true
	w.lastKind, w.lastLen = "", 0
	defer func() {
		w.inOp, w.crashStep = false, -1
		steps = w.step
		if x := recover(); x != nil {
			if _, ok := x.(crashSig); ok {
				res = "crashed"
			} else {
				res = fmt.Sprintf("PANIC %v", x)
			}
			w.kill()
		}
	}()
	opts := &chainimport.ImportOptions{
		TargetChainParams:       params,
		TargetBlockHeaderStore:  w.bs,
		TargetFilterHeaderStore: w.fs,
		BlockHeadersSource:      bp,
		FilterHeadersSource:     fp,
		WriteBatchSizePerRegion: bs,
	}
	imp, err := chainimport.NewHeadersImport(opts)
	if err != nil {
		return "err options", 0
	}
	_, err = imp.Import(context.Background())
	return classify(err), 0
}

func (w *cworld) tips() (int, int) {
	_, b, err1 := w.bs.ChainTip()
	_, f, err2 := w.fs.ChainTip()
	if err1 != nil || err2 != nil {
		return -1, -1
	}
	return int(b), int(f)
}

// writeDirect appends chain entries to a store, bypassing the importer.
func (w *cworld) writeBlocksDirect(from, to int) error {
	var hs []headerfs.BlockHeader
	for h := from; h <= to; h++ {
		hh := w.chain[h]
		hs = append(hs, headerfs.BlockHeader{BlockHeader: &hh, Height: uint32(h)})
	}
	return w.bs.WriteHeaders(hs...)
}

func (w *cworld) writeFiltersDirect(from, to int) error {
	var fh []headerfs.FilterHeader
	for h := from; h <= to; h++ {
		fh = append(fh, headerfs.FilterHeader{FilterHash: w.fchain[h], Height: uint32(h)})
	}
	if len(fh) == 0 {
		return nil
	}
	fh[len(fh)-1].HeaderHash = w.chain[to].BlockHash()
	return w.fs.WriteHeaders(fh...)
}

// onePoint: one crash point.  Returns whether the armed crash fired, and the
// kind/length of the killed step.
func onePoint(t *tr.W, w *cworld, r *rand.Rand, mode string, bs, newCount, k, torn int) (fired bool, kind string, length int) {
	if w.bs == nil || w.fs == nil {
		return false, "dead", 0
	}
	bTip, fTip := w.tips()
	if bTip < 0 {
		return false, "dead", 0
	}
	count := max(bTip, fTip) + 1 + newCount
	if mode == "block-ahead" {
		count = bTip + 1 + newCount
	}
	w.extend(r, count)
	bp, fp := w.writeFiles(count)
	t.Case("crashimport mode %s bs %d count %d k %d torn %d", mode, bs, count, k, torn)
	t.Hit("mode." + mode)
	t.Op("pre", w.dump())
	res, steps := w.importUnder(bp, fp, bs, k, torn)
	t.Op("import", res)
	t.Hit("import." + strings.ReplaceAll(res, " ", "-"))
	fired = res == "crashed"
	if fired {
		kind, length = w.lastKind, w.lastLen
		t.Line("# step %d %s len %d", k, kind, length)
		t.Hit("killed." + kind)
		if kind == "wB" || kind == "wF" {
			switch {
			case torn == 0:
				t.Hit("torn.0")
			case torn >= length:
				t.Hit("torn.whole")
			case (kind == "wB" && torn%80 == 0) || (kind == "wF" && torn%32 == 0):
				t.Hit("torn.entry-boundary")
			default:
				t.Hit("torn.mid-entry")
			}
		}
		// restart
		if err := w.open(); err != nil {
			t.Op("restart", "err "+strings.ReplaceAll(err.Error(), "\n", " "))
			t.Hit("restart.err")
			return false, "dead", 0
		}
		t.Op("restart", "ok")
	} else {
		t.Line("# steps %d", steps)
	}
	t.Op("dump", w.dump())
	// resume: the same import again, undisturbed
	res2, _ := w.importUnder(bp, fp, bs, -1, 0)
	t.Op("resume", res2)
	t.Hit("resume." + strings.ReplaceAll(res2, " ", "-"))
	t.Op("dump", w.dump())
	if b, f := w.tips(); b >= 0 && f < b {
		// level the stores by hand so that the next crash point starts from level stores
		if err := w.writeFiltersDirect(f+1, b); err != nil {
			t.Op("heal", "err")
		} else {
			t.Op("heal", "ok")
		}
	}
	return
}

// tornLengths: the torn lengths tried for a file write of the given length.
func tornLengths(r *rand.Rand, width, length int, thorough bool) []int {
	set := map[int]bool{}
	var out []int
	add := func(x int) {
		if x >= 0 && x <= length && !set[x] {
			set[x] = true
			out = append(out, x)
		}
	}
	add(1 + r.Intn(width-1))                                      // inside the first entry
	add(length)                                                   // the whole write, index not yet updated
	add(width * (1 + r.Intn(max(1, length/width))))               // an entry boundary
	add(width*r.Intn(max(1, length/width)) + 1 + r.Intn(width-1)) // inside a later entry
	if thorough {
		add(width - 1)
		add(width)
		add(length - 1)
		add(length - width)
		add(1)
	}
	return out
}

func RunCrash(t *tr.W, thorough bool) {
	r := tr.Rng(1408)
	type cfg struct{ newCount, bs int }
	cfgs := []cfg{{1, 1}, {3, 2}, {4, 1000}, {5, 2}, {7, 3}}
	if thorough {
		cfgs = append(cfgs, cfg{2, 1}, cfg{6, 7}, cfg{9, 4}, cfg{12, 5}, cfg{3, 1})
	}
	// a different order and different pre-existing heights per seed
	r.Shuffle(len(cfgs), func(i, j int) { cfgs[i], cfgs[j] = cfgs[j], cfgs[i] })
	for ci, c := range cfgs {
		w := newCWorld()
		mode := "genesis"
		if ci%2 == 1 {
			// some existing history, written through the stores
			n := 1 + r.Intn(6)
			w.extend(r, n+1)
			if err := w.writeBlocksDirect(1, n); err != nil {
				panic(err)
			}
			if err := w.writeFiltersDirect(1, n); err != nil {
				panic(err)
			}
			mode = "equal"
		}
		for k := 0; ; k++ {
			fired, kind, length := onePoint(t, w, r, mode, c.bs, c.newCount, k, 0)
			mode = "equal"
			if !fired {
				break // k is past the last durable step of the import (or the stores are beyond repair)
			}
			if kind == "wB" || kind == "wF" {
				width := 80
				if kind == "wF" {
					width = 32
				}
				for _, torn := range tornLengths(r, width, length, thorough) {
					if _, kd, _ := onePoint(t, w, r, mode, c.bs, c.newCount, k, torn); kd == "dead" {
						break
					}
				}
			}
		}
		// block store ahead of the filter store by d headers (less than a batch, several batches): the import
		// first brings the filter store level (divergence region), then appends; killed at every durable step
		for _, d := range []int{1, 2 * c.bs + 1} {
			if d > 7 {
				d = 7
			}
			for k := 0; ; k++ {
				if w.bs == nil || w.fs == nil {
					break
				}
				bTip, fTip := w.tips()
				if bTip < 0 {
					break
				}
				if bTip == fTip {
					w.extend(r, bTip+1+d)
					if err := w.writeBlocksDirect(bTip+1, bTip+d); err != nil {
						panic(err)
					}
				}
				fired, _, _ := onePoint(t, w, r, "block-ahead", c.bs, c.newCount, k, 0)
				if !fired {
					break
				}
			}
		}
		if w.bs == nil || w.fs == nil {
			w.close()
			continue
		}
		bTip, _ := w.tips()
		if bTip < 0 {
			w.close()
			continue
		}
		d := 1 + r.Intn(2)
		w.extend(r, bTip+1+d)
		if err := w.writeBlocksDirect(bTip+1, bTip+d); err != nil {
			panic(err)
		}
		onePoint(t, w, r, "block-ahead", c.bs, c.newCount, 0, 0)
		w.close()
	}
	if template != "" {
		os.RemoveAll(template)
		template = ""
	}
}
