// Package lrudrv drives the real cache/lru.Cache: random sequential operation
// sequences and exhaustively / randomly scheduled concurrent operations through
// the verif yield hooks.  Output: line protocol (package tr).
package lrudrv

import (
	"bytes"
	"errors"
	"fmt"
	"math/rand"
	"os"
	"os/exec"
	"path/filepath"
	"runtime"
	"sort"
	"strconv"
	"strings"
	"sync"
	"sync/atomic"
	"time"

	"github.com/lightninglabs/neutrino/cache/lru"
	"verifharness/tr"
)

// val is a cache value whose Size() can be made to fail after insertion.
type val struct {
	id   int
	size uint64
	bad  *atomic.Bool
}

func (v *val) Size() (uint64, error) {
	if v.bad.Load() {
		return 0, errors.New("size unavailable")
	}
	return v.size, nil
}

type op struct {
	kind string // put get del poison heal
	k    int
	vid  int
	sz   uint64
}

func (o op) String() string {
	switch o.kind {
	case "put":
		return fmt.Sprintf("put %d %d %d", o.k, o.vid, o.sz)
	case "get", "del":
		return fmt.Sprintf("%s %d", o.kind, o.k)
	case "psize", "plen", "pget":
		return o.kind
	default:
		return fmt.Sprintf("%s %d", o.kind, o.vid)
	}
}

// absentKey is never stored by any generator: looking it up changes nothing.
const absentKey = 1 << 30

type world struct {
	c    *lru.Cache[int, *val]
	vals map[int]*val
}

func newWorld(cap uint64) *world {
	return &world{c: lru.NewCache[int, *val](cap), vals: map[int]*val{}}
}

// newWorldCb: the cache calls back into the harness (a scheduling point) when
// it deletes or evicts an entry.
func newWorldCb(cap uint64) *world {
	return &world{c: lru.NewCache[int, *val](cap, lru.WithDeleteCallback(func(int, *val) { hook("cb") })),
		vals: map[int]*val{}}
}

func (w *world) exec(o op) string {
	switch o.kind {
	case "put":
		v := &val{id: o.vid, size: o.sz, bad: new(atomic.Bool)}
		w.vals[o.vid] = v
		ev, err := w.c.Put(o.k, v)
		if err != nil {
			return "err"
		}
		if ev {
			return "ok 1"
		}
		return "ok 0"
	case "get":
		v, err := w.c.Get(o.k)
		if err != nil {
			return "nf"
		}
		return "v " + strconv.Itoa(v.id)
	case "del":
		v, ok := w.c.LoadAndDelete(o.k)
		if !ok {
			return "no"
		}
		return "v " + strconv.Itoa(v.id)
	case "psize", "plen", "pget":
		// Size()/Len()/Get(of a key that is never stored) probed from a concurrent
		// caller: they must not return while another call is inside its critical
		// section (a lookup that bypasses a busy mutex reads, and orders, stale state).
		// "held": some other caller is between taking the mutex and returning
		// (the scheduler's own bookkeeping; it resumed us, so the read is ordered)
		held := false
		if sc := cur.Load(); sc != nil {
			held = sc.holder != -1
		}
		ch := make(chan uint64, 1)
		go func() {
			switch o.kind {
			case "psize":
				ch <- w.c.Size()
			case "plen":
				ch <- uint64(w.c.Len())
			default:
				if _, err := w.c.Get(absentKey); err == nil {
					ch <- 1
				} else {
					ch <- 0
				}
			}
		}()
		wait := time.Second
		if held {
			wait = 3 * time.Millisecond
		}
		h := "held0"
		if held {
			h = "held1"
		}
		select {
		case v := <-ch:
			return fmt.Sprintf("%s v %d", h, v)
		case <-time.After(wait):
			return h + " blocked"
		}
	case "poison":
		if v := w.vals[o.vid]; v != nil {
			v.bad.Store(true)
		}
		return "-"
	case "heal":
		if v := w.vals[o.vid]; v != nil {
			v.bad.Store(false)
		}
		return "-"
	}
	panic(o.kind)
}

// execTimed runs one op with a watchdog; a hang means the cache's mutex was
// leaked by an earlier call.
func (w *world) execTimed(o op) string {
	ch := make(chan string, 1)
	go func() { ch <- w.exec(o) }()
	select {
	case s := <-ch:
		return s
	case <-time.After(2 * time.Second):
		return "HANG"
	}
}

func (w *world) dump() string {
	ch := make(chan string, 1)
	go func() {
		var filo, fifo []string
		w.c.RangeFILO(func(k int, v *val) bool {
			filo = append(filo, fmt.Sprintf("%d:%d:%d", k, v.id, v.size))
			return true
		})
		w.c.RangeFIFO(func(k int, v *val) bool {
			fifo = append(fifo, fmt.Sprintf("%d:%d:%d", k, v.id, v.size))
			return true
		})
		// FIFO must be the reverse of FILO; report a flag rather than both.
		rev := "1"
		if len(filo) != len(fifo) {
			rev = "0"
		} else {
			for i := range filo {
				if filo[i] != fifo[len(fifo)-1-i] {
					rev = "0"
				}
			}
		}
		var keys []int
		w.c.Range(func(k int, v *val) bool { keys = append(keys, k); return true })
		sort.Ints(keys)
		ch <- fmt.Sprintf("size %d len %d filo [%s] keys %s rev %s", w.c.Size(), w.c.Len(),
			strings.Join(filo, " "), tr.Join(keys, strconv.Itoa), rev)
	}()
	select {
	case s := <-ch:
		return s
	case <-time.After(2 * time.Second):
		return "HANG"
	}
}

type gen struct {
	r     *rand.Rand
	cap   uint64
	nkeys int
	vid   int
	live  []int // vids handed out
}

func (g *gen) next(allowPoison bool) op {
	x := g.r.Intn(100)
	k := g.r.Intn(g.nkeys)
	switch {
	case x < 50:
		g.vid++
		g.live = append(g.live, g.vid)
		var sz uint64
		switch y := g.r.Intn(20); {
		case y == 0:
			sz = g.cap + 1 + uint64(g.r.Intn(3)) // too big
		case y == 1:
			sz = 0
		case y == 2:
			sz = g.cap
		default:
			sz = 1 + uint64(g.r.Int63n(int64(g.cap)))
			if g.r.Intn(2) == 0 && g.cap > 3 {
				sz = 1 + uint64(g.r.Int63n(int64(g.cap/2)))
			}
		}
		return op{kind: "put", k: k, vid: g.vid, sz: sz}
	case x < 72:
		return op{kind: "get", k: k}
	case x < 86:
		return op{kind: "del", k: k}
	case x < 94 && allowPoison && len(g.live) > 0:
		return op{kind: "poison", vid: g.live[g.r.Intn(len(g.live))]}
	case allowPoison && len(g.live) > 0:
		return op{kind: "heal", vid: g.live[g.r.Intn(len(g.live))]}
	}
	return op{kind: "get", k: k}
}

// Sequential emits n random sequential cases.
func Sequential(t *tr.W, r *rand.Rand, n int) {
	for i := 0; i < n; i++ {
		cap := uint64(1 + r.Intn(12))
		if r.Intn(10) == 0 {
			cap = uint64(1 + r.Intn(60))
		}
		g := &gen{r: r, cap: cap, nkeys: 2 + r.Intn(5)}
		w := newWorld(cap)
		poison := r.Intn(3) == 0
		t.Case("seq cap %d", cap)
		nops := 5 + r.Intn(40)
		for j := 0; j < nops; j++ {
			o := g.next(poison)
			obs := w.execTimed(o)
			t.Op(o.String(), obs)
			t.Hit("seq." + o.kind + "." + strings.Fields(obs)[0])
			if obs == "HANG" {
				break
			}
			d := w.dump()
			t.Op("dump", d)
			if d == "HANG" {
				break
			}
		}
	}
}

// hugeCaps: capacities in the upper half of the uint64 range, where a sum of two
// in-range quantities (resident total + size of the entry being stored) no longer
// fits the machine word.  The property quantifies over arbitrary sizes and
// capacities; sizes are user-defined units, and NewCache(math.MaxUint64) is the
// idiom for an "unbounded" cache.
var hugeCaps = []uint64{
	1<<63 - 2, 1<<63 - 1, 1 << 63, 1<<63 + 1, 1<<63 + 5, 3 << 62, 1<<64 - 3, 1<<64 - 2, 1<<64 - 1,
}

// hugeSize picks an entry size for a cache of capacity cap whose resident total
// is cur: small ones, ones around 2^62 and 2^63, ones that exactly fill, just fit
// or just miss the free space, the capacity itself and sizes beyond it.
func hugeSize(r *rand.Rand, cap, cur uint64) uint64 {
	free := cap - cur
	small := uint64(r.Intn(4))
	switch r.Intn(16) {
	case 0:
		return small
	case 1, 2:
		return 1<<62 - 1 + small // around 2^62
	case 3, 4:
		return 1<<63 - 2 + small // around 2^63 (may exceed the capacity)
	case 5:
		return cap
	case 6:
		return cap - 1 - small
	case 7:
		if cap < 1<<64-4 {
			return cap + 1 + small // too big
		}
		return 1<<64 - 1 // too big unless it is the capacity
	case 8:
		return free // fills the cache exactly, nothing to evict
	case 9:
		if free < cap {
			return free + 1 // one more than fits: the oldest entry has to go
		}
		return free
	case 10:
		if free > small {
			return free - small - 1
		}
		return small
	case 11:
		return cap/2 + small
	case 12:
		return cap/2 - small
	case 13:
		return 1<<64 - 1 - small // 2^64-1 ... : wraps any non-empty total
	case 14:
		return cap/3 + small
	default:
		return 1 + uint64(r.Int63())>>uint(r.Intn(3)) // anywhere in the lower half
	}
}

// SequentialHuge: sequential cases like Sequential's, on caches whose capacity is
// near 2^63 or 2^64 and entries whose sizes add up to more than a uint64 holds.
// The Lean driver computes the oracle (resident total <= capacity, Size() = that
// total, Len(), recency order, step clauses) on unbounded naturals.
func SequentialHuge(t *tr.W, r *rand.Rand, n int) {
	for i := 0; i < n; i++ {
		cap := hugeCaps[r.Intn(len(hugeCaps))]
		if r.Intn(6) == 0 {
			cap = 1<<63 + uint64(r.Int63()) // anywhere in the upper half
		}
		w := newWorld(cap)
		nkeys := 2 + r.Intn(5)
		vid := 0
		var live []int
		poison := r.Intn(4) == 0
		t.Case("seq cap %d", cap)
		nops := 5 + r.Intn(30)
		for j := 0; j < nops; j++ {
			var o op
			k := r.Intn(nkeys)
			switch x := r.Intn(100); {
			case x < 60:
				vid++
				live = append(live, vid)
				o = op{kind: "put", k: k, vid: vid, sz: hugeSize(r, cap, w.c.Size())}
			case x < 75:
				o = op{kind: "get", k: k}
			case x < 88:
				o = op{kind: "del", k: k}
			case x < 95 && poison && len(live) > 0:
				o = op{kind: "poison", vid: live[r.Intn(len(live))]}
			case poison && len(live) > 0:
				o = op{kind: "heal", vid: live[r.Intn(len(live))]}
			default:
				o = op{kind: "get", k: k}
			}
			obs := w.execTimed(o)
			t.Op(o.String(), obs)
			t.Hit("huge." + o.kind + "." + strings.Fields(obs)[0])
			if o.kind == "put" && o.sz >= 1<<62 {
				t.Hit("huge.put.size>=2^62")
			}
			if obs == "HANG" {
				break
			}
			d := w.dump()
			t.Op("dump", d)
			if d == "HANG" {
				break
			}
		}
	}
}

// ConcHuge: a few randomly scheduled cases on huge capacities (the arithmetic of
// Put/evict/LoadAndDelete inside the critical section, with other callers parked
// at the yield points).
func ConcHuge(t *tr.W, r *rand.Rand, n int) {
	lru.VerifYield = hook
	for i := 0; i < n; i++ {
		cap := hugeCaps[r.Intn(len(hugeCaps))]
		vid := 0
		cur := uint64(0)
		mk := func() op {
			k := r.Intn(3)
			switch x := r.Intn(10); {
			case x < 6:
				vid++
				sz := hugeSize(r, cap, cur%cap)
				cur += sz / 2 // only steers the choice of the next boundary size
				return op{kind: "put", k: k, vid: vid, sz: sz}
			case x < 8:
				return op{kind: "get", k: k}
			default:
				return op{kind: "del", k: k}
			}
		}
		var prefix []op
		for j := r.Intn(5); j > 0; j-- {
			prefix = append(prefix, mk())
		}
		nth := 2 + r.Intn(2)
		progs := make([][]op, nth)
		for k := range progs {
			for j := 1 + r.Intn(3); j > 0; j-- {
				progs[k] = append(progs[k], mk())
			}
		}
		choices := make([]int, 200)
		for k := range choices {
			choices[k] = r.Intn(nth)
		}
		emitConc(t, cap, prefix, progs, choices)
		t.Hit("huge.conc")
	}
}

// ---------------------------------------------------------------------------
// Controlled scheduler over the yield hooks.

type event struct {
	tid  int
	site string // yield site, "op.start", "done"
	res  string // result of the op that just finished (with op.start/done)
}

type sched struct {
	mu      sync.Mutex
	gids    map[uint64]int
	resume  []chan struct{}
	events  chan event
	holder  int // bookkeeping: tid inside the locked section, -1 if none
	atSite  []string
	done    []bool
	results [][]string
	lin     []string // linearisation: op lines in order of lock acquisition
	curOp   []string
	linDone []bool
}

func gid() uint64 {
	b := make([]byte, 64)
	b = b[:runtime.Stack(b, false)]
	b = bytes.TrimPrefix(b, []byte("goroutine "))
	b = b[:bytes.IndexByte(b, ' ')]
	n, _ := strconv.ParseUint(string(b), 10, 64)
	return n
}

var cur atomic.Pointer[sched]

func hook(site string) {
	s := cur.Load()
	if s == nil {
		return
	}
	s.mu.Lock()
	tid, ok := s.gids[gid()]
	s.mu.Unlock()
	if !ok {
		return
	}
	s.events <- event{tid: tid, site: site}
	<-s.resume[tid]
}

func isPreLock(site string) bool {
	return strings.HasSuffix(site, ".loaded") || strings.HasSuffix(site, ".prelock")
}

// runSchedule executes progs on w under the choice sequence `choices`
// (index into the enabled set at each step; 0 past the end).  Returns the
// number of enabled threads at each step, the schedule as tids, and status.
func runSchedule(w *world, progs [][]op, choices []int) (branching []int, tids []int, s *sched, status string) {
	n := len(progs)
	s = &sched{gids: map[uint64]int{}, events: make(chan event, n), holder: -1,
		atSite: make([]string, n), done: make([]bool, n), results: make([][]string, n),
		curOp: make([]string, n), linDone: make([]bool, n)}
	s.resume = make([]chan struct{}, n)
	for i := range s.resume {
		s.resume[i] = make(chan struct{})
	}
	cur.Store(s)
	defer cur.Store(nil)
	for i := range progs {
		i := i
		go func() {
			s.mu.Lock()
			s.gids[gid()] = i
			s.mu.Unlock()
			res := ""
			for _, o := range progs[i] {
				s.events <- event{tid: i, site: "op.start " + o.String(), res: res}
				<-s.resume[i]
				res = w.exec(o)
			}
			s.events <- event{tid: i, site: "done", res: res}
		}()
	}
	// collect initial op.start of everybody
	pending := n
	handle := func(e event) {
		t := e.tid
		if strings.HasPrefix(e.site, "op.start") || e.site == "done" {
			if s.curOp[t] != "" {
				// previous op finished
				if !s.linDone[t] {
					s.lin = append(s.lin, s.curOp[t]+" => "+e.res)
				} else {
					// patch result into lin entry
					for j := len(s.lin) - 1; j >= 0; j-- {
						if strings.HasPrefix(s.lin[j], fmt.Sprintf("@%d ", t)) {
							s.lin[j] = strings.TrimPrefix(s.lin[j], fmt.Sprintf("@%d ", t)) + " => " + e.res
							break
						}
					}
				}
				s.results[t] = append(s.results[t], e.res)
				if s.holder == t {
					s.holder = -1
				}
			}
			s.linDone[t] = false
			if e.site == "done" {
				s.done[t] = true
				s.curOp[t] = ""
			} else {
				s.curOp[t] = strings.TrimPrefix(e.site, "op.start ")
			}
			s.atSite[t] = "start"
			return
		}
		s.atSite[t] = e.site
		if strings.HasSuffix(e.site, ".locked") {
			s.holder = t
			if !s.linDone[t] {
				s.linDone[t] = true
				s.lin = append(s.lin, fmt.Sprintf("@%d %s", t, s.curOp[t]))
			}
		}
		if strings.HasSuffix(e.site, ".unlocked") && s.holder == t {
			s.holder = -1
		}
	}
	for pending > 0 {
		handle(<-s.events)
		pending--
	}
	step := 0
	for {
		var en []int
		alive := 0
		for t := 0; t < n; t++ {
			if s.done[t] {
				continue
			}
			alive++
			// a caller parked just before Lock() can proceed only if the mutex is
			// really free (asked of the cache itself, not inferred)
			if isPreLock(s.atSite[t]) && !w.c.VerifLockFree() {
				continue
			}
			en = append(en, t)
		}
		if alive == 0 {
			return branching, tids, s, "ok"
		}
		if len(en) == 0 {
			// A probe's reader that was waiting for the mutex may hold it for an
			// instant after the writer left: look again before calling it a deadlock.
			retried := false
			for i := 0; i < 200 && !retried; i++ {
				time.Sleep(500 * time.Microsecond)
				if w.c.VerifLockFree() {
					retried = true
				}
			}
			if retried {
				continue
			}
			return branching, tids, s, "DEADLOCK"
		}
		c := 0
		if step < len(choices) {
			c = choices[step]
		}
		if c >= len(en) {
			c = len(en) - 1
		}
		branching = append(branching, len(en))
		t := en[c]
		tids = append(tids, t)
		step++
		s.resume[t] <- struct{}{}
		select {
		case e := <-s.events:
			handle(e)
		case <-time.After(2 * time.Second):
			return branching, tids, s, "HANG"
		}
	}
}

func runPrefix(w *world, prefix []op) {
	for _, o := range prefix {
		w.exec(o)
	}
}

func emitConc(t *tr.W, cap uint64, prefix []op, progs [][]op, choices []int) (branching []int, status string) {
	w := newWorld(cap)
	if cap%2 == 0 {
		w = newWorldCb(cap)
	}
	var pre []string
	for _, o := range prefix {
		pre = append(pre, o.String()+" => "+w.exec(o))
	}
	br, tids, s, status := runSchedule(w, progs, choices)
	t.Case("conc cap %d threads %d sched %s", cap, len(progs), tr.Join(tids, strconv.Itoa))
	for _, l := range pre {
		t.Line("%s", l)
	}
	t.Ops += len(pre)
	for i, p := range progs {
		t.Line("# t%d: %s", i, tr.Join(p, func(o op) string { return o.String() }))
	}
	for _, l := range s.lin {
		if strings.HasPrefix(l, "@") {
			// op that took the lock and never finished
			l = l[strings.Index(l, " ")+1:] + " => HANG"
		}
		t.Line("%s", l)
		t.Ops++
	}
	if status != "ok" {
		t.Op("status", status)
		t.Hit("conc.status." + status)
		return br, status
	}
	t.Op("dump", w.dump())
	t.Hit("conc.status.ok")
	return br, status
}

// ConcExhaustive enumerates every schedule of a few small programs.
func ConcExhaustive(t *tr.W, r *rand.Rand, nprogs int, maxSched int) {
	lru.VerifYield = hook
	for pi := 0; pi < nprogs; pi++ {
		cap := uint64(2 + r.Intn(4))
		g := &gen{r: r, cap: cap, nkeys: 2}
		var prefix []op
		for i := r.Intn(4); i > 0; i-- {
			prefix = append(prefix, g.next(false))
		}
		nth := 2 + r.Intn(2)
		progs := make([][]op, nth)
		for i := range progs {
			nops := 1
			if nth == 2 && r.Intn(2) == 0 {
				nops = 2
			}
			for j := 0; j < nops; j++ {
				o := g.next(false)
				if r.Intn(7) == 0 {
					o = op{kind: []string{"psize", "plen", "pget"}[r.Intn(3)]}
					progs[i] = append(progs[i], o)
					continue
				}
				if r.Intn(3) > 0 {
					// bias to the same key and to puts: that is where races live
					o.k = 0
					if r.Intn(2) == 0 && o.kind != "put" {
						g.vid++
						o = op{kind: "put", k: 0, vid: g.vid, sz: 1 + uint64(r.Intn(int(cap)))}
					}
				}
				progs[i] = append(progs[i], o)
			}
		}
		// DFS over choice sequences by re-execution.
		choices := []int{}
		count := 0
		for {
			br, status := emitConc(t, cap, prefix, progs, choices)
			count++
			if status == "HANG" || count >= maxSched {
				break
			}
			// next choice sequence
			full := make([]int, len(br))
			copy(full, choices)
			i := len(br) - 1
			for ; i >= 0; i-- {
				if full[i]+1 < br[i] {
					full[i]++
					full = full[:i+1]
					break
				}
			}
			if i < 0 {
				break
			}
			choices = full
		}
		t.Hit("conc.programs")
		t.Stats["conc.schedules"] += count
	}
}

// ConcRandom runs longer programs under random schedules.
func ConcRandom(t *tr.W, r *rand.Rand, n int) {
	lru.VerifYield = hook
	for i := 0; i < n; i++ {
		cap := uint64(2 + r.Intn(8))
		g := &gen{r: r, cap: cap, nkeys: 2 + r.Intn(2)}
		var prefix []op
		for j := r.Intn(6); j > 0; j-- {
			prefix = append(prefix, g.next(false))
		}
		nth := 2 + r.Intn(3)
		progs := make([][]op, nth)
		for k := range progs {
			for j := 1 + r.Intn(4); j > 0; j-- {
				if r.Intn(6) == 0 {
					progs[k] = append(progs[k], op{kind: []string{"psize", "plen", "pget"}[r.Intn(3)]})
					continue
				}
				progs[k] = append(progs[k], g.next(false))
			}
		}
		choices := make([]int, 200)
		for k := range choices {
			choices[k] = r.Intn(nth)
		}
		emitConc(t, cap, prefix, progs, choices)
	}
}

// Unscheduled hammers one cache from several goroutines without the
// scheduler (real preemption) and dumps at quiescence; the trace carries only
// the dump, which the invariant oracle evaluates.  The goroutines use the whole
// synchronised API, Range, Len and Size included.  Unsynchronised access to a Go
// map is a fatal runtime error that no recover can stop, so the cases run in a
// child process; if it dies the case ends with "status => CRASH <reason>".
func Unscheduled(t *tr.W, r *rand.Rand, n int) {
	exe, err := os.Executable()
	if err != nil {
		unscheduledBody(t, r, n)
		return
	}
	tmp := filepath.Join(os.TempDir(), fmt.Sprintf("lru-free-%d.trace", os.Getpid()))
	defer os.Remove(tmp)
	cmd := exec.Command(exe, "lru-free", tmp)
	cmd.Env = append(os.Environ(), fmt.Sprintf("LRU_FREE=%d", n), fmt.Sprintf("LRU_FREE_SEED=%d", r.Int63()))
	var out bytes.Buffer
	cmd.Stdout, cmd.Stderr = &out, &out
	done := make(chan error, 1)
	if err := cmd.Start(); err != nil {
		unscheduledBody(t, r, n)
		return
	}
	go func() { done <- cmd.Wait() }()
	var werr error
	select {
	case werr = <-done:
	case <-time.After(time.Duration(60+n/2) * time.Second):
		cmd.Process.Kill()
		<-done
		werr = fmt.Errorf("no result within the time limit")
	}
	// forward what the child recorded
	if b, err := os.ReadFile(tmp); err == nil {
		for _, line := range strings.Split(strings.TrimRight(string(b), "\n"), "\n") {
			switch {
			case strings.HasPrefix(line, "case "):
				f := strings.SplitN(line, " ", 3)
				if len(f) == 3 {
					t.Case("%s", f[2])
				}
			case strings.HasPrefix(line, "# stat "):
				f := strings.Fields(line)
				if len(f) == 4 {
					if v, err := strconv.Atoi(f[3]); err == nil {
						t.Stats[f[2]] += v
					}
				}
			case strings.Contains(line, " => "):
				f := strings.SplitN(line, " => ", 2)
				t.Op(f[0], f[1])
			case line != "":
				t.Line("%s", line)
			}
		}
	}
	if werr != nil {
		reason := werr.Error()
		for _, l := range strings.Split(out.String(), "\n") {
			if strings.HasPrefix(l, "fatal error:") || strings.HasPrefix(l, "panic:") {
				reason = l
				break
			}
		}
		t.Case("free crashed")
		t.Op("status", "CRASH "+reason)
		t.Hit("free.crash")
	}
}

var rangeNil atomic.Int64

func unscheduledBody(t *tr.W, r *rand.Rand, n int) {
	lru.VerifYield = nil
	for i := 0; i < n; i++ {
		cap := uint64(3 + r.Intn(6))
		nkeys := 2
		if i%2 == 1 {
			// a wider key space keeps an unordered walk of the index busy for longer
			nkeys, cap = 24, uint64(20+r.Intn(20))
		}
		w := newWorld(cap)
		var wg sync.WaitGroup
		nth := 3
		seeds := make([]int64, nth)
		for k := range seeds {
			seeds[k] = r.Int63()
		}
		var vid atomic.Int64
		doneCh := make(chan struct{})
		storm := i%5 == 2
		if storm {
			// one goroutine walks the index over and over while the others replace and evict entries
			// (every Put evicts: capacity 3, sizes 1..2): whatever Range hands out must be a stored value
			nkeys, cap = 8, 3
			w = newWorld(cap)
			wg.Add(1)
			go func() {
				defer wg.Done()
				for j := 0; j < 30000; j++ {
					w.c.Range(func(k int, v *val) bool {
						if v == nil {
							rangeNil.Store(int64(k) + 1)
						}
						return true
					})
				}
			}()
		}
		for k := 0; k < nth; k++ {
			wg.Add(1)
			go func(seed int64) {
				defer wg.Done()
				rr := rand.New(rand.NewSource(seed))
				nops := 400
				if storm {
					nops = 15000
				}
				for j := 0; j < nops; j++ {
					key := rr.Intn(nkeys)
					sel := rr.Intn(8)
					if storm && sel > 4 {
						sel = rr.Intn(3)
					}
					switch sel {
					case 0, 1, 2:
						v := &val{id: int(vid.Add(1)), size: 1 + uint64(rr.Intn(int(min(cap, 8)))), bad: new(atomic.Bool)}
						w.c.Put(key, v)
					case 3:
						w.c.Get(key)
					case 4:
						w.c.LoadAndDelete(key)
					case 5:
						// a visitor must be handed the value that was stored under the key
						w.c.Range(func(k int, v *val) bool {
							if v == nil {
								rangeNil.Store(int64(k) + 1)
							}
							return true
						})
					case 6:
						w.c.Len()
					default:
						w.c.Size()
					}
				}
			}(seeds[k])
		}
		go func() { wg.Wait(); close(doneCh) }()
		t.Case("free cap %d threads %d", cap, nth)
		select {
		case <-doneCh:
			t.Op("dump", w.dump())
		case <-time.After(5 * time.Second):
			t.Op("status", "HANG")
		}
		if k := rangeNil.Swap(0); k != 0 {
			t.Op("status", fmt.Sprintf("RANGE-NO-VALUE Range handed its visitor key %d without a value", k-1))
		}
		t.Hit("free.case")
	}
}

func init() {
	// the free-running cases, run as a child of the lru driver
	tr.Register("lru-free", func(t *tr.W, thorough bool) {
		seed, _ := strconv.ParseInt(os.Getenv("LRU_FREE_SEED"), 10, 64)
		unscheduledBody(t, rand.New(rand.NewSource(seed)), tr.EnvInt("LRU_FREE", 40))
	})
	tr.Register("lru", func(t *tr.W, thorough bool) {
		tr.MaxHangs = 6
		r := tr.Rng(16)
		// the huge-capacity cases draw from their own stream: the cases the other
		// generators produce for a seed stay what they were
		rh := tr.Rng(1664)
		b := tr.EnvInt("VERIF_BUDGET", 1)
		if os.Getenv("VERIF_SEARCH") != "" {
			// the search pass after a broken tie: three times the quick budget
			thorough, b = false, 3
		}
		if thorough {
			Sequential(t, r, b*tr.EnvInt("LRU_SEQ", 20000))
			SequentialHuge(t, rh, b*tr.EnvInt("LRU_HUGE", 4000))
			ConcExhaustive(t, r, b*tr.EnvInt("LRU_PROGS", 150), 4000)
			ConcRandom(t, r, b*tr.EnvInt("LRU_RAND", 3000))
			ConcHuge(t, rh, b*tr.EnvInt("LRU_HUGE_CONC", 300))
			Unscheduled(t, r, tr.EnvInt("LRU_FREE", 300))
		} else {
			Sequential(t, r, b*tr.EnvInt("LRU_SEQ", 1500))
			SequentialHuge(t, rh, b*tr.EnvInt("LRU_HUGE", 300))
			ConcExhaustive(t, r, b*tr.EnvInt("LRU_PROGS", 12), 1500)
			ConcRandom(t, r, b*tr.EnvInt("LRU_RAND", 300))
			ConcHuge(t, rh, b*tr.EnvInt("LRU_HUGE_CONC", 30))
			Unscheduled(t, r, tr.EnvInt("LRU_FREE", 40))
		}
	})
}
