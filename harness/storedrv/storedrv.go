// Package storedrv drives the real headerfs block- and filter-header stores on
// real files + bbolt: appends, rollbacks, the block manager's rollback
// sequence, reads, reopen, injected I/O faults and crashes at every durable
// step (file write with torn prefix, truncate, index commit).
package storedrv

import (
	"errors"
	"fmt"
	"io"
	"math/rand"
	"os"
	"path/filepath"
	"strconv"
	"strings"
	"time"

	"github.com/btcsuite/btcd/chaincfg/v2"
	"github.com/btcsuite/btcd/chainhash/v2"
	"github.com/btcsuite/btcd/wire/v2"
	"github.com/btcsuite/btcwallet/walletdb"
	_ "github.com/btcsuite/btcwallet/walletdb/bdb"
	"github.com/lightninglabs/neutrino/headerfs"
	"verifharness/tr"
)

var params = &chaincfg.SimNetParams

type crashSig struct{}

// world is one data directory with both stores open.
type world struct {
	dir string
	db  walletdb.DB
	bs  headerfs.BlockHeaderStore
	fs  headerfs.FilterHeaderStore

	// durable-step interposition
	step       int    // durable steps taken by the current op
	faultKind  string // "", shortwrite, writeerr, truncerr, syncerr, dberr
	faultStep  int
	faultArg   int
	crashStep  int // -1 = none
	crashTorn  int
	crashAfter bool // the step is carried out, then the process dies (a crash between two durable steps)
	inOp       bool

	// identities
	bid  map[chainhash.Hash]int
	bhdr []*wire.BlockHeader // by id
	fid  map[chainhash.Hash]int
	fhs  []chainhash.Hash // by fid
	r    *rand.Rand

	checkAllGone bool // the next dump looks every removed block hash up (after a deep rollback, a failed or interrupted bulk append)
}

type faultFile struct {
	headerfs.File
	w *world
}

func (f *faultFile) Write(p []byte) (int, error) {
	w := f.w
	if !w.inOp {
		return f.File.Write(p)
	}
	s := w.step
	w.step++
	if w.crashStep == s {
		t := w.crashTorn
		if w.crashAfter {
			t = len(p)
		}
		if t > len(p) {
			t = len(p)
		}
		if t > 0 {
			f.File.Write(p[:t])
		}
		panic(crashSig{})
	}
	if w.faultStep == s {
		switch w.faultKind {
		case "shortwrite":
			t := w.faultArg
			if t >= len(p) {
				t = len(p) - 1
			}
			if t < 0 {
				t = 0
			}
			n, _ := f.File.Write(p[:t])
			return n, errors.New("injected short write")
		case "writeerr":
			return 0, errors.New("injected write error")
		}
	}
	return f.File.Write(p)
}

func (f *faultFile) Truncate(sz int64) error {
	w := f.w
	if !w.inOp {
		return f.File.Truncate(sz)
	}
	s := w.step
	w.step++
	if w.crashStep == s {
		if w.crashAfter {
			f.File.Truncate(sz)
		}
		panic(crashSig{})
	}
	if w.faultStep == s && w.faultKind == "truncerr" {
		return errors.New("injected truncate error")
	}
	return f.File.Truncate(sz)
}

func (f *faultFile) Sync() error {
	w := f.w
	if w.inOp && w.faultKind == "syncerr" {
		return errors.New("injected sync error")
	}
	return f.File.Sync()
}

type faultDB struct {
	walletdb.DB
	w *world
}

func (d *faultDB) Update(fn func(tx walletdb.ReadWriteTx) error, reset func()) error {
	w := d.w
	if !w.inOp {
		return d.DB.Update(fn, reset)
	}
	s := w.step
	w.step++
	if w.crashStep == s {
		if w.crashAfter {
			d.DB.Update(fn, reset)
		}
		panic(crashSig{})
	}
	if w.faultStep == s && w.faultKind == "dberr" {
		return errors.New("injected db error")
	}
	if w.faultStep == s && w.faultKind == "dbcommit" {
		// the transaction body runs, then the commit fails: bbolt rolls back
		return d.DB.Update(func(tx walletdb.ReadWriteTx) error {
			if err := fn(tx); err != nil {
				return err
			}
			return errors.New("injected commit error")
		}, reset)
	}
	return d.DB.Update(fn, reset)
}

var fullDump = os.Getenv("VERIF_TIER") == "thorough"

var template string // directory holding a freshly initialised store pair

func makeTemplate() {
	d, err := os.MkdirTemp("", "storetpl")
	if err != nil {
		panic(err)
	}
	db, err := walletdb.Create("bdb", filepath.Join(d, "n.db"), false, 10*time.Second, false)
	if err != nil {
		panic(err)
	}
	b, err := headerfs.NewBlockHeaderStore(d, db, params)
	if err != nil {
		panic(err)
	}
	f, err := headerfs.NewFilterHeaderStore(d, db, headerfs.RegularFilter, params, nil)
	if err != nil {
		panic(err)
	}
	headerfs.VerifCloseFile(b)
	headerfs.VerifCloseFile(f)
	db.Close()
	template = d
}

func copyFile(src, dst string) {
	in, err := os.Open(src)
	if err != nil {
		panic(err)
	}
	defer in.Close()
	out, err := os.Create(dst)
	if err != nil {
		panic(err)
	}
	defer out.Close()
	if _, err := io.Copy(out, in); err != nil {
		panic(err)
	}
}

func newWorld(r *rand.Rand) *world {
	if template == "" {
		makeTemplate()
	}
	d, err := os.MkdirTemp("", "storecase")
	if err != nil {
		panic(err)
	}
	for _, f := range []string{"n.db", "block_headers.bin", "reg_filter_headers.bin"} {
		copyFile(filepath.Join(template, f), filepath.Join(d, f))
	}
	w := &world{dir: d, bid: map[chainhash.Hash]int{}, fid: map[chainhash.Hash]int{}, r: r,
		crashStep: -1, faultStep: -1}
	g := params.GenesisBlock.Header
	w.bid[g.BlockHash()] = 0
	w.bhdr = append(w.bhdr, &g)
	if err := w.open(); err != nil {
		panic(err)
	}
	fh, _, err := w.fs.ChainTip()
	if err != nil {
		panic(err)
	}
	w.fid[*fh] = 0
	w.fhs = append(w.fhs, *fh)
	return w
}

// errCrashed: the (simulated) process died inside a constructor
var errCrashed = errors.New("crashed during start-up")

// open starts both stores.  The flat files are wrapped at the moment the
// constructors open them, so that the durable steps of the start-up
// reconciliation count (and can be killed) like those of any other operation
// while w.inOp is set.
func (w *world) open() (err error) {
	var opened []*faultFile
	var rawDB walletdb.DB
	defer func() {
		headerfs.VerifOpenFile = nil
		if x := recover(); x != nil {
			if _, ok := x.(crashSig); ok {
				err = errCrashed
			} else {
				err = fmt.Errorf("panic: %v", x)
			}
			// the process is gone: drop every handle it held
			for _, f := range opened {
				f.File.Close()
			}
			if rawDB != nil {
				rawDB.Close()
			}
			w.db, w.bs, w.fs = nil, nil, nil
		}
	}()
	headerfs.VerifOpenFile = func(f headerfs.File) headerfs.File {
		ff := &faultFile{File: f, w: w}
		opened = append(opened, ff)
		return ff
	}
	db, err := walletdb.Open("bdb", filepath.Join(w.dir, "n.db"), false, 10*time.Second, false)
	if err != nil {
		// the very first start: no database yet
		db, err = walletdb.Create("bdb", filepath.Join(w.dir, "n.db"), false, 10*time.Second, false)
		if err != nil {
			return err
		}
	}
	rawDB = db
	w.db = &faultDB{DB: db, w: w}
	w.bs, err = headerfs.NewBlockHeaderStore(w.dir, w.db, params)
	if err != nil {
		for _, f := range opened {
			f.File.Close()
		}
		db.Close()
		w.db = nil
		return fmt.Errorf("block store: %w", err)
	}
	w.fs, err = headerfs.NewFilterHeaderStore(w.dir, w.db, headerfs.RegularFilter, params, nil)
	if err != nil {
		for _, f := range opened {
			f.File.Close()
		}
		db.Close()
		w.db = nil
		return fmt.Errorf("filter store: %w", err)
	}
	return nil
}

// startUnder runs a start under the armed crash: "crashed", "ok" or "err".
func (w *world) startUnder() string {
	w.step = 0
	w.inOp = true
	err := w.open()
	w.inOp = false
	w.faultKind, w.faultStep, w.crashStep, w.crashAfter = "", -1, -1, false
	if errors.Is(err, errCrashed) {
		return "crashed"
	}
	return errClass(err)
}

// legacy moves every k-th indexed block hash (from a random offset) out of its
// hash-prefix sub-bucket into the root bucket of the index, where versions
// before the sub-bucket layout kept all entries.  Returns how many were moved.
func (w *world) legacy(k int) int {
	if w.db == nil {
		return 0
	}
	name, nb := headerfs.VerifIndexBucket()
	moved := 0
	off := w.r.Intn(k)
	err := walletdb.Update(w.db.(*faultDB).DB, func(tx walletdb.ReadWriteTx) error {
		root := tx.ReadWriteBucket(name)
		if root == nil {
			return fmt.Errorf("no index bucket")
		}
		for i, h := range w.bhdr {
			if i%k != off {
				continue
			}
			hash := h.BlockHash()
			sub := root.NestedReadWriteBucket(hash[0:nb])
			if sub == nil {
				continue
			}
			v := sub.Get(hash[:])
			if v == nil {
				continue
			}
			val := append([]byte(nil), v...)
			if err := sub.Delete(hash[:]); err != nil {
				return err
			}
			if err := root.Put(hash[:], val); err != nil {
				return err
			}
			moved++
		}
		return nil
	})
	if err != nil {
		panic(fmt.Sprintf("storedrv: legacy layout: %v", err))
	}
	return moved
}

func (w *world) close() {
	if w.db == nil {
		return
	}
	headerfs.VerifCloseFile(w.bs)
	headerfs.VerifCloseFile(w.fs)
	w.db.(*faultDB).DB.Close()
	w.db = nil
}

func (w *world) destroy() {
	w.close()
	os.RemoveAll(w.dir)
}

func (w *world) newBlock(prev chainhash.Hash) int {
	h := &wire.BlockHeader{Version: 1, PrevBlock: prev, Timestamp: time.Unix(1600000000+int64(len(w.bhdr)), 0),
		Bits: 0x207fffff, Nonce: w.r.Uint32()}
	w.r.Read(h.MerkleRoot[:])
	id := len(w.bhdr)
	w.bhdr = append(w.bhdr, h)
	w.bid[h.BlockHash()] = id
	return id
}

func (w *world) newFilter() int {
	var h chainhash.Hash
	w.r.Read(h[:])
	id := len(w.fhs)
	w.fhs = append(w.fhs, h)
	w.fid[h] = id
	return id
}

func (w *world) bname(h chainhash.Hash) string {
	if id, ok := w.bid[h]; ok {
		return strconv.Itoa(id)
	}
	return "?"
}

func (w *world) fname(h chainhash.Hash) string {
	if id, ok := w.fid[h]; ok {
		return strconv.Itoa(id)
	}
	return "?"
}

// run executes a mutating op under the armed fault / crash.
func (w *world) run(f func() string) (obs string) {
	w.step = 0
	w.inOp = true
	defer func() {
		w.inOp = false
		w.faultKind, w.faultStep, w.crashStep, w.crashAfter = "", -1, -1, false
		if x := recover(); x != nil {
			if _, ok := x.(crashSig); ok {
				obs = "crashed"
				return
			}
			obs = fmt.Sprintf("PANIC %v", x)
		}
	}()
	return f()
}

func errClass(err error) string {
	if err == nil {
		return "ok"
	}
	return "err"
}

func (w *world) tipB() (uint32, chainhash.Hash, error) {
	h, height, err := w.bs.ChainTip()
	if err != nil {
		return 0, chainhash.Hash{}, err
	}
	return height, h.BlockHash(), nil
}

// blockAt returns the id of the block stored at a height, or -1.
func (w *world) blockAt(height uint32) int {
	h, err := w.bs.FetchHeaderByHeight(height)
	if err != nil {
		return -1
	}
	if id, ok := w.bid[h.BlockHash()]; ok {
		return id
	}
	return -1
}

func (w *world) writeBlocks(ids []int, start uint32) string {
	hdrs := make([]headerfs.BlockHeader, len(ids))
	for i, id := range ids {
		hdrs[i] = headerfs.BlockHeader{BlockHeader: w.bhdr[id], Height: start + uint32(i)}
	}
	return errClass(w.bs.WriteHeaders(hdrs...))
}

func (w *world) writeFilters(fids []int, start uint32) string {
	hdrs := make([]headerfs.FilterHeader, len(fids))
	for i, id := range fids {
		bh, err := w.bs.FetchHeaderByHeight(start + uint32(i))
		if err != nil {
			return "err-noblock"
		}
		hdrs[i] = headerfs.FilterHeader{HeaderHash: bh.BlockHash(), FilterHash: w.fhs[id], Height: start + uint32(i)}
	}
	return errClass(w.fs.WriteHeaders(hdrs...))
}

// rollTo mirrors blockManager.rollBackToHeight's sequence of store calls
// (order pinned by the extractor fact Gen.Store.rollbackFilterFirst).
func (w *world) rollTo(height uint32) string {
	header, hh, err := w.bs.ChainTip()
	if err != nil {
		return "err"
	}
	bsHeight, bsHash := hh, header.BlockHash()
	_, regHeight, err := w.fs.ChainTip()
	if err != nil {
		return "err"
	}
	for bsHeight > height {
		hdr, _, err := w.bs.FetchHeader(&bsHash)
		if err != nil {
			return "err"
		}
		newTip := &hdr.PrevBlock
		if bsHeight <= regHeight {
			st, err := w.fs.RollbackLastBlock(newTip)
			if err != nil {
				return "err"
			}
			regHeight = uint32(st.Height)
		}
		st, err := w.bs.RollbackLastBlock()
		if err != nil {
			return "err"
		}
		bsHeight, bsHash = uint32(st.Height), st.Hash
	}
	return "ok"
}

func (w *world) dump() string {
	if w.db == nil {
		return "closed"
	}
	var sb strings.Builder
	// block file by height until not found
	sb.WriteString("B [")
	present := map[int]bool{}
	var n uint32
	xb := "ok"
	tipGuess := uint32(0)
	if th, _, err := w.tipB(); err == nil {
		tipGuess = th
	}
	for ; n < 100000; n++ {
		h, err := w.bs.FetchHeaderByHeight(n)
		if err != nil {
			break
		}
		if n > 0 {
			sb.WriteByte(' ')
		}
		hash := h.BlockHash()
		sb.WriteString(w.bname(hash))
		if id, ok := w.bid[hash]; ok {
			present[id] = true
		}
		// by-hash lookups must agree with the position (all entries in the
		// thorough tier; the newest 12 and a sample otherwise)
		if !fullDump && n+12 < tipGuess && n%17 != 0 {
			continue
		}
		h2, height, err := w.bs.FetchHeader(&hash)
		hh, err2 := w.bs.HeightFromHash(&hash)
		if err != nil || err2 != nil || height != n || hh != n || h2.BlockHash() != hash {
			if xb == "ok" {
				xb = fmt.Sprintf("bad@%d", n)
			}
		}
	}
	nb := n // first block height not found
	sb.WriteString("] tb ")
	if height, hash, err := w.tipB(); err != nil {
		sb.WriteString("err")
	} else {
		fmt.Fprintf(&sb, "%d:%s", height, w.bname(hash))
	}
	sb.WriteString(" F [")
	for n = 0; n < 100000; n++ {
		h, err := w.fs.FetchHeaderByHeight(n)
		if err != nil {
			break
		}
		if n > 0 {
			sb.WriteByte(' ')
		}
		sb.WriteString(w.fname(*h))
	}
	sb.WriteString("] tf ")
	if h, height, err := w.fs.ChainTip(); err != nil {
		sb.WriteString("err")
	} else {
		fmt.Fprintf(&sb, "%d:%s", height, w.fname(*h))
	}
	// entries that are not in the file must not be found by hash
	gone := "ok"
	for id, h := range w.bhdr {
		if present[id] || (!fullDump && !w.checkAllGone && id+40 < len(w.bhdr)) {
			continue
		}
		hash := h.BlockHash()
		if _, _, err := w.bs.FetchHeader(&hash); err == nil {
			gone = fmt.Sprintf("found:%d", id)
			break
		}
		if _, err := w.bs.HeightFromHash(&hash); err == nil {
			gone = fmt.Sprintf("indexed:%d", id)
			break
		}
	}
	w.checkAllGone = false
	// heights far beyond the tip must not be found either: offsets computed in
	// 32 bits (height*80, height*32) wrap back into the file for heights around
	// k*2^32/80 and k*2^32/32 (seed C07h-1); a few of each, next to the tip and at
	// the ends of the uint32 range
	if xb == "ok" {
		for _, far := range farHeights(nb) {
			if _, err := w.bs.FetchHeaderByHeight(far); err == nil {
				xb = fmt.Sprintf("far@%d", far)
				break
			}
		}
	}
	if xb == "ok" {
		for _, far := range farHeights(n) {
			if _, err := w.fs.FetchHeaderByHeight(far); err == nil {
				xb = fmt.Sprintf("farf@%d", far)
				break
			}
		}
	}
	fmt.Fprintf(&sb, " xb %s gone %s", xb, gone)
	return sb.String()
}

// farHeights lists heights above every stored entry (n = first height not found
// by the dump) at which a wrapped 32-bit offset would land inside the files.
func farHeights(n uint32) []uint32 {
	out := []uint32{n + 1, n + 2, n + 1000, 1<<31 - 1, 1 << 31, 1<<32 - 1, 1<<32 - 2}
	for _, width := range []uint64{80, 32} {
		for k := uint64(1); k <= 3; k++ {
			// smallest height whose offset height*width >= k*2^32
			base := (k<<32 + width - 1) / width
			for j := uint64(0); j < 4; j++ {
				if h := base + j; h < 1<<32 && uint32(h) > n {
					out = append(out, uint32(h))
				}
			}
		}
	}
	for _, sh := range []uint{27, 28, 29, 30} {
		for j := uint32(0); j < 3; j++ {
			if h := uint32(1)<<sh + j; h > n {
				out = append(out, h)
			}
		}
	}
	return out
}

type gen struct {
	w       *world
	r       *rand.Rand
	t       *tr.W
	crashes bool
	faults  bool
	asked   []int // block ids recently looked up by hash
}

func (g *gen) emit(op, obs string) {
	g.t.Op(op, obs)
	o := strings.Fields(obs + " -")[0]
	if c := o[0]; c == '[' || (c >= '0' && c <= '9') {
		o = "val"
	}
	g.t.Hit("store." + strings.Fields(op)[0] + "." + o)
}

func ids(xs []int) string {
	ss := make([]string, len(xs))
	for i, x := range xs {
		ss[i] = strconv.Itoa(x)
	}
	return strings.Join(ss, " ")
}

// mutate performs one random mutating op (possibly under a fault or crash).
// Returns false if the case must end (store unusable).
func (g *gen) mutate() bool {
	w := g.w
	tipH, tipHash, err := w.tipB()
	if err != nil {
		return false
	}
	_, ftipH, err := w.fs.ChainTip()
	if err != nil {
		return false
	}
	// now and then: lay some index entries out the way older versions did
	// (directly in the root bucket); no answer of the stores may change
	if g.r.Intn(12) == 0 {
		m := w.legacy(1 + g.r.Intn(4))
		g.t.Line("legacy %d", m)
		if m > 0 {
			g.t.Hit("store.legacy-moved")
		}
	}
	// arm a fault or a crash for this op?
	armed := ""
	x := g.r.Intn(100)
	switch {
	case g.crashes && x < 35:
		armed = g.pickCrash(4)
	case g.faults && x < 30:
		kinds := []string{"shortwrite", "writeerr", "truncerr", "syncerr", "dberr", "dbcommit", "dbcommit"}
		w.faultKind = kinds[g.r.Intn(len(kinds))]
		w.faultStep = g.r.Intn(3)
		w.faultArg = []int{1, 31, 32, 79, 80, 81, 100, 160}[g.r.Intn(8)]
		if w.faultKind == "syncerr" && g.r.Intn(2) == 0 {
			// a failing fsync on its own: the stores only sync while repairing a failed index
			// transaction, so an operation must not even notice it (every Sync of the op fails)
			g.t.Hit("store.fault.syncerr-alone")
		} else if w.faultKind == "syncerr" {
			w.faultKind = "dberr"
		}
		armed = fmt.Sprintf("fault %s %d %d", w.faultKind, w.faultStep, w.faultArg)
	}
	if armed != "" {
		g.t.Line("%s", armed)
	}
	var op, obs string
	y := g.r.Intn(100)
	switch {
	case y < 40: // append blocks
		n := []int{0, 1, 1, 2, 3, 5, 8}[g.r.Intn(7)]
		if g.r.Intn(40) == 0 {
			n = 50 + g.r.Intn(250)
		}
		if g.r.Intn(60) == 0 {
			// a batch far beyond any plausible internal chunk size (the header
			// import writes tens of thousands of headers at once)
			n = 2001 + g.r.Intn(2600)
			if g.r.Intn(2) == 0 {
				n += 2500 // deep enough for a rollback crossing two chunks of 2000
			}
		}
		var batch []int
		prev := tipHash
		for i := 0; i < n; i++ {
			id := w.newBlock(prev)
			prev = w.bhdr[id].BlockHash()
			batch = append(batch, id)
		}
		op = strings.TrimSpace("wb " + ids(batch))
		obs = w.run(func() string { return w.writeBlocks(batch, tipH+1) })
	case y < 60: // append filter headers for existing blocks
		room := int(tipH) - int(ftipH)
		n := 0
		if room > 0 {
			n = 1 + g.r.Intn(room)
		}
		if g.r.Intn(10) == 0 {
			n = 0
		}
		var batch []int
		for i := 0; i < n; i++ {
			batch = append(batch, w.newFilter())
		}
		op = strings.TrimSpace("wf " + ids(batch))
		obs = w.run(func() string { return w.writeFilters(batch, ftipH+1) })
	case y < 72: // block rollback (only when no filter header would be orphaned, as the callers do)
		max := int(tipH) - int(ftipH)
		n := g.r.Intn(3)
		if g.r.Intn(6) == 0 {
			n = int(tipH) + g.r.Intn(2) // to genesis and past it
		}
		if max > 2100 && g.r.Intn(2) == 0 {
			// a rollback far deeper than any plausible internal chunk size
			n = 2001 + g.r.Intn(max-2000)
			w.checkAllGone = true
			g.t.Hit("store.rb.deep")
		}
		if n > max && g.r.Intn(4) != 0 {
			n = max
		}
		if n > max {
			// would orphan filter headers: callers never do this; use rollto instead
			op = fmt.Sprintf("rollto %d", int(tipH)-minInt(n, int(tipH)))
			h := uint32(int(tipH) - minInt(n, int(tipH)))
			obs = w.run(func() string { return w.rollTo(h) })
			break
		}
		op = fmt.Sprintf("rb %d", n)
		obs = w.run(func() string {
			st, err := w.bs.RollbackBlockHeaders(uint32(n))
			if err != nil {
				return "err"
			}
			if n == 0 {
				return "ok -"
			}
			return fmt.Sprintf("ok %d:%s", st.Height, w.bname(st.Hash))
		})
	case y < 80: // filter rollback
		if ftipH == 0 {
			if g.r.Intn(2) == 0 {
				op, obs = "nop", "-"
				break
			}
			// at genesis there is nothing to roll back: the call must refuse and change nothing
			op = "rf"
			nt := w.bhdr[0].BlockHash()
			obs = w.run(func() string {
				st, err := w.fs.RollbackLastBlock(&nt)
				if err != nil {
					return "err"
				}
				return fmt.Sprintf("ok %d:%s", st.Height, w.fname(st.Hash))
			})
			g.t.Hit("store.rf.at-genesis")
			break
		}
		op = "rf"
		bh, err := w.bs.FetchHeaderByHeight(ftipH - 1)
		if err != nil {
			return false
		}
		nt := bh.BlockHash()
		obs = w.run(func() string {
			st, err := w.fs.RollbackLastBlock(&nt)
			if err != nil {
				return "err"
			}
			return fmt.Sprintf("ok %d:%s", st.Height, w.fname(st.Hash))
		})
	case y < 92: // the block manager's rollback
		h := uint32(0)
		if tipH > 0 {
			h = uint32(g.r.Intn(int(tipH) + 1))
			if g.r.Intn(2) == 0 && tipH >= 2 {
				h = tipH - uint32(1+g.r.Intn(2))
			}
		}
		op = fmt.Sprintf("rollto %d", h)
		obs = w.run(func() string { return w.rollTo(h) })
	default:
		// a restart; under an armed crash the start itself is killed
		op = "reopen"
		w.close()
		// (an I/O error during start-up makes the constructors fail, which no property forbids: only crashes are injected here)
		w.faultKind, w.faultStep = "", -1
		obs = w.startUnder()
	}
	w.faultKind, w.faultStep, w.crashStep, w.crashAfter = "", -1, -1, false
	g.emit(op, obs)
	if obs == "crashed" {
		w.close()
		// now and then the restart is killed as well (up to three times in a row)
		for k := 0; k < 3 && g.crashes && g.r.Intn(4) == 0; k++ {
			g.armCrash(6)
			again := w.startUnder()
			g.emit("reopen", again)
			g.t.Hit("store.restart-killed." + again)
			w.close()
		}
		err := w.open()
		g.emit("reopen", errClass(err))
		if err != nil {
			g.t.Line("# reopen error: %v", err)
			return false
		}
	}
	if obs == "err" && armed != "" && (strings.HasPrefix(op, "rb") || op == "rf" || strings.HasPrefix(op, "rollto")) {
		// A rollback that failed part-way under an injected fault leaves index
		// and file out of step until the next start-up reconciles them (no
		// property constrains the state in between): restart now.
		w.close()
		err := w.open()
		g.emit("reopen", errClass(err))
		if err != nil {
			return false
		}
	}
	if w.db == nil {
		return false
	}
	return true
}

// pickCrash arms a crash before (or right after) one of the first n durable
// steps of the next operation and returns the directive describing it.
func (g *gen) pickCrash(n int) string {
	w := g.w
	w.crashStep = g.r.Intn(n)
	switch g.r.Intn(6) {
	case 0:
		w.crashTorn = 0
	case 1:
		w.crashTorn = 1 + g.r.Intn(31)
	case 2:
		w.crashTorn = 32 * (1 + g.r.Intn(3))
	case 3:
		w.crashTorn = 80 * (1 + g.r.Intn(3))
	case 4:
		w.crashTorn = 80*(1+g.r.Intn(2)) + 1 + g.r.Intn(79)
	default:
		w.crashTorn = 1 << 20 // the whole write
	}
	armed := fmt.Sprintf("crash %d %d", w.crashStep, w.crashTorn)
	w.crashAfter = g.r.Intn(3) == 0
	if w.crashAfter {
		armed = fmt.Sprintf("crashafter %d", w.crashStep)
	}
	return armed
}

// armCrash arms a crash and emits its directive.
func (g *gen) armCrash(n int) {
	g.t.Line("%s", g.pickCrash(n))
}

func minInt(a, b int) int {
	if a < b {
		return a
	}
	return b
}

func (g *gen) reads() {
	w := g.w
	tipH, _, err := w.tipB()
	if err != nil {
		return
	}
	for i := g.r.Intn(3); i > 0; i-- {
		switch g.r.Intn(5) {
		case 0:
			h := uint32(g.r.Intn(int(tipH) + 3))
			id := w.blockAt(h)
			if id < 0 {
				g.emit(fmt.Sprintf("hb %d", h), "nf")
			} else {
				g.emit(fmt.Sprintf("hb %d", h), strconv.Itoa(id))
			}
		case 1:
			id := g.r.Intn(len(w.bhdr))
			hash := w.bhdr[id].BlockHash()
			_, height, err := w.bs.FetchHeader(&hash)
			if err != nil {
				g.emit(fmt.Sprintf("xb %d", id), "nf")
			} else {
				g.emit(fmt.Sprintf("xb %d", id), strconv.Itoa(int(height)))
			}
			g.remember(id)
		case 2:
			loc, err := w.bs.LatestBlockLocator()
			if err != nil {
				g.emit("loc", "err")
				break
			}
			var ss []string
			for _, h := range loc {
				ss = append(ss, w.bname(*h))
			}
			g.emit("loc", "["+strings.Join(ss, " ")+"]")
		case 3:
			h := uint32(g.r.Intn(int(tipH) + 1))
			id := w.blockAt(h)
			if id < 0 {
				break
			}
			n := uint32(g.r.Intn(int(h) + 1))
			hash := w.bhdr[id].BlockHash()
			hs, start, err := w.bs.FetchHeaderAncestors(n, &hash)
			if err != nil {
				g.emit(fmt.Sprintf("anc %d %d", n, id), "err")
				break
			}
			var ss []string
			for _, x := range hs {
				ss = append(ss, w.bname(x.BlockHash()))
			}
			g.emit(fmt.Sprintf("anc %d %d", n, id), fmt.Sprintf("%d [%s]", start, strings.Join(ss, " ")))
		case 4:
			id := g.r.Intn(len(w.bhdr))
			if g.r.Intn(2) == 0 {
				// a block that is stored right now (and may have a filter header)
				if x := w.blockAt(uint32(g.r.Intn(int(tipH) + 1))); x >= 0 {
					id = x
				}
			}
			g.askXF(id)
			g.remember(id)
		}
	}
	// ask again what was asked by hash before: an answer may only change because the stores changed
	// (a lookup that is remembered inside the store would keep answering for a block that was rolled back
	// or replaced)
	for _, id := range g.asked {
		if g.r.Intn(2) == 0 {
			g.askXF(id)
		} else {
			hash := w.bhdr[id].BlockHash()
			_, height, err := w.bs.FetchHeader(&hash)
			if err != nil {
				g.emit(fmt.Sprintf("xb %d", id), "nf")
			} else {
				g.emit(fmt.Sprintf("xb %d", id), strconv.Itoa(int(height)))
			}
		}
	}
}

// askFAnc asks the FILTER header store for the n ancestors of a block hash (the
// height comes from the shared block index, the range from the filter file):
// whenever the block store is ahead, a stop hash above the filter tip names a
// range the filter file does not hold - all of it or only its upper part.
func (g *gen) askFAnc(n uint32, id int) {
	w := g.w
	hash := w.bhdr[id].BlockHash()
	hs, start, err := w.fs.FetchHeaderAncestors(n, &hash)
	if err != nil {
		g.emit(fmt.Sprintf("fanc %d %d", n, id), "err")
		return
	}
	var ss []string
	for _, x := range hs {
		ss = append(ss, w.fname(x))
	}
	g.emit(fmt.Sprintf("fanc %d %d", n, id), fmt.Sprintf("%d [%s]", start, strings.Join(ss, " ")))
}

// rangeReads: ancestor ranges of both stores placed at the boundaries on
// purpose - ending at the tip, straddling the filter tip (stop hash above it,
// start at or below it), entirely above it, reaching down to genesis, one more
// than exist.  Drawn from a stream of its own.
func (g *gen) rangeReads(r *rand.Rand) {
	w := g.w
	tipH, _, err := w.tipB()
	if err != nil {
		return
	}
	_, ftipH, err := w.fs.ChainTip()
	if err != nil {
		return
	}
	type q struct{ h, n uint32 }
	var qs []q
	qs = append(qs, q{ftipH, uint32(r.Intn(int(ftipH) + 1))}, q{ftipH, ftipH}, q{ftipH, ftipH + 1})
	if tipH > ftipH {
		g.t.Hit("store.fanc.block-store-ahead")
		above := ftipH + 1 + uint32(r.Intn(int(tipH-ftipH)))
		qs = append(qs,
			q{above, above - ftipH},                                // starts exactly at the filter tip
			q{above, above - ftipH + uint32(r.Intn(int(ftipH)+1))}, // starts at or below it
			q{above, above},                                        // down to genesis
			q{tipH, 0},                                             // entirely above
			q{ftipH + 1, 1})
	}
	for i, x := range qs {
		if (i <= 2 || len(qs) <= 3) && r.Intn(3) != 0 {
			continue // ranges inside the file: a sample
		}
		if i > 2 && i > 4 && r.Intn(2) == 0 {
			continue
		}
		id := w.blockAt(x.h)
		if id < 0 {
			continue
		}
		g.askFAnc(x.n, id)
		if x.h > ftipH && x.n >= x.h-ftipH {
			g.t.Hit("store.fanc.straddles-filter-tip")
		}
	}
	// the same on the block store: ending at the tip, down to genesis, one too many
	if id := w.blockAt(tipH); id >= 0 {
		for _, n := range [][]uint32{{uint32(r.Intn(int(tipH) + 1))}, {tipH}, {tipH + 1}}[r.Intn(3)] {
			hash := w.bhdr[id].BlockHash()
			hs, start, err := w.bs.FetchHeaderAncestors(n, &hash)
			if err != nil {
				g.emit(fmt.Sprintf("anc %d %d", n, id), "err")
				continue
			}
			var ss []string
			for _, x := range hs {
				ss = append(ss, w.bname(x.BlockHash()))
			}
			g.emit(fmt.Sprintf("anc %d %d", n, id), fmt.Sprintf("%d [%s]", start, strings.Join(ss, " ")))
		}
	}
}

func (g *gen) askXF(id int) {
	w := g.w
	hash := w.bhdr[id].BlockHash()
	fh, err := w.fs.FetchHeader(&hash)
	if err != nil {
		g.emit(fmt.Sprintf("xf %d", id), "nf")
	} else {
		g.emit(fmt.Sprintf("xf %d", id), w.fname(*fh))
	}
}

// remember keeps the last few block ids that were looked up by hash.
func (g *gen) remember(id int) {
	for _, x := range g.asked {
		if x == id {
			return
		}
	}
	g.asked = append(g.asked, id)
	if len(g.asked) > 6 {
		g.asked = g.asked[1:]
	}
}

// InitCases: the very first start in an empty data directory, killed before
// (or, for a file write, within) one of its durable steps, restarted, now and
// then killed again, and finally left alone.
func InitCases(t *tr.W, r *rand.Rand) {
	torn := []int{0, 1, 31, 32, 33, 79, 80, 81, 1 << 20}
	n := 0
	for step := 0; step <= 6; step++ {
		for _, tl := range torn {
			if tl != 0 && step != 1 && step != 4 {
				continue // only the two genesis writes can be torn
			}
			initCase(t, r, step, tl, n)
			n++
		}
	}
}

func initCase(t *tr.W, r *rand.Rand, step, tornLen, n int) {
	d, err := os.MkdirTemp("", "storeinit")
	if err != nil {
		panic(err)
	}
	w := &world{dir: d, bid: map[chainhash.Hash]int{}, fid: map[chainhash.Hash]int{}, r: r,
		crashStep: -1, faultStep: -1}
	defer w.destroy()
	gh := params.GenesisBlock.Header
	w.bid[gh.BlockHash()] = 0
	w.bhdr = append(w.bhdr, &gh)
	g := &gen{w: w, r: r, t: t, crashes: true}
	t.Case("store init")
	w.crashStep, w.crashTorn = step, tornLen
	t.Line("crash %d %d", step, tornLen)
	obs := w.startUnder()
	g.emit("reopen", obs)
	t.Hit("store.first-start." + obs)
	w.close()
	// the restart is killed as well, at a step that varies with the case
	for k := 0; obs == "crashed" && k < n%3; k++ {
		w.crashStep, w.crashTorn = (n/3+k)%7, []int{0, 17, 40, 1 << 20}[(n+k)%4]
		t.Line("crash %d %d", w.crashStep, w.crashTorn)
		again := w.startUnder()
		g.emit("reopen", again)
		t.Hit("store.first-restart." + again)
		w.close()
	}
	err = w.open()
	g.emit("reopen", errClass(err))
	if err != nil {
		t.Line("# reopen error: %v", err)
		return
	}
	if fh, _, err := w.fs.ChainTip(); err == nil {
		w.fid[*fh] = 0
		w.fhs = append(w.fhs, *fh)
	}
	g.emit("dump", w.dump())
}

// deepCase: one scripted case per run with a batch and a rollback far deeper
// than any plausible internal chunk size (a rollback that is read or deleted in
// chunks must not skip an entry at a chunk boundary), followed by new blocks at
// the same heights and a restart.
func deepCase(t *tr.W, r *rand.Rand) {
	w := newWorld(r)
	defer w.destroy()
	g := &gen{w: w, r: r, t: t}
	t.Case("store plain")
	g.emit("dump", w.dump())
	grow := func(n int) {
		tipH, tipHash, err := w.tipB()
		if err != nil {
			return
		}
		var batch []int
		prev := tipHash
		for i := 0; i < n; i++ {
			id := w.newBlock(prev)
			prev = w.bhdr[id].BlockHash()
			batch = append(batch, id)
		}
		g.emit(strings.TrimSpace("wb "+ids(batch)), w.run(func() string { return w.writeBlocks(batch, tipH+1) }))
	}
	rb := func(n int) {
		g.emit(fmt.Sprintf("rb %d", n), w.run(func() string {
			st, err := w.bs.RollbackBlockHeaders(uint32(n))
			if err != nil {
				return "err"
			}
			return fmt.Sprintf("ok %d:%s", st.Height, w.bname(st.Hash))
		}))
		w.checkAllGone = true
		g.emit("dump", w.dump())
	}
	grow(4200 + r.Intn(300))
	g.emit("dump", w.dump())
	rb(4001 + r.Intn(150)) // crosses two boundaries of a 2000-chunk
	grow(3)
	w.checkAllGone = true
	g.emit("dump", w.dump())
	grow(2300)
	rb(2001 + r.Intn(200))
	w.close()
	g.emit("reopen", errClass(w.open()))
	w.checkAllGone = true
	g.emit("dump", w.dump())
	t.Hit("store.deep-case")
}

// bulkSizes: batches above every plausible internal chunk size of the stores
// (P2P sync hands over at most 2000 headers, the header import 65536 by
// default; 2000 and 4000 are the chunk sizes seen so far).
func bulkSizes(r *rand.Rand) []int {
	return []int{2001 + r.Intn(400), 4001 + r.Intn(400), 8001 + r.Intn(400)}
}

// bulkFaultCase: ONE WriteHeaders call of n headers whose k-th durable step
// (0 = the file write, 1 = the first index transaction, 2.. = further
// transactions, should the index write a big batch in several) fails - the
// transaction body runs and its commit fails, or it fails outright.  Whatever
// the store does inside, the append is all or nothing: after a reported
// failure every by-height, by-hash and tip answer is what it was, and NONE of
// the batch's hashes resolves (every one is looked up); after a success the
// whole batch is there.  Then the batch is rolled back (if it went in) and the
// next step is tried on the same store, which also shows that nothing was left
// behind by the failures before.
func bulkFaultCase(t *tr.W, r *rand.Rand, n int, steps []int) {
	w := newWorld(r)
	defer w.destroy()
	g := &gen{w: w, r: r, t: t, faults: true}
	t.Case("store faults")
	g.emit("dump", w.dump())
	for i, k := range steps {
		tipH, tipHash, err := w.tipB()
		if err != nil {
			return
		}
		var batch []int
		prev := tipHash
		for j := 0; j < n; j++ {
			id := w.newBlock(prev)
			prev = w.bhdr[id].BlockHash()
			batch = append(batch, id)
		}
		w.faultKind = []string{"dbcommit", "dberr"}[(i+n)%2]
		w.faultStep, w.faultArg = k, 0
		t.Line("fault %s %d %d", w.faultKind, k, 0)
		obs := w.run(func() string { return w.writeBlocks(batch, tipH+1) })
		g.emit(strings.TrimSpace("wb "+ids(batch)), obs)
		t.Hit(fmt.Sprintf("store.bulk.fault-at-step-%d.%s", k, obs))
		w.checkAllGone = true
		g.emit("dump", w.dump())
		// by-hash lookups of the batch's first, middle and last header, and of the old tip
		for _, id := range []int{batch[0], batch[n/2], batch[n-1], w.bid[tipHash]} {
			hash := w.bhdr[id].BlockHash()
			if _, height, err := w.bs.FetchHeader(&hash); err != nil {
				g.emit(fmt.Sprintf("xb %d", id), "nf")
			} else {
				g.emit(fmt.Sprintf("xb %d", id), strconv.Itoa(int(height)))
			}
			g.askXF(id)
		}
		if obs == "ok" {
			g.emit(fmt.Sprintf("rb %d", n), w.run(func() string {
				st, err := w.bs.RollbackBlockHeaders(uint32(n))
				if err != nil {
					return "err"
				}
				return fmt.Sprintf("ok %d:%s", st.Height, w.bname(st.Hash))
			}))
			w.checkAllGone = true
			g.emit("dump", w.dump())
		}
	}
	w.close()
	g.emit("reopen", errClass(w.open()))
	w.checkAllGone = true
	g.emit("dump", w.dump())
}

// bulkCrashCase: the same bulk append killed before (or right after) its k-th
// durable step, restart, every hash of the interrupted batch looked up: the
// store holds the batch or does not, entirely.
func bulkCrashCase(t *tr.W, r *rand.Rand, n int, steps []int) {
	w := newWorld(r)
	defer w.destroy()
	g := &gen{w: w, r: r, t: t, crashes: true}
	t.Case("store crashes")
	g.emit("dump", w.dump())
	for i, k := range steps {
		tipH, tipHash, err := w.tipB()
		if err != nil {
			return
		}
		var batch []int
		prev := tipHash
		for j := 0; j < n; j++ {
			id := w.newBlock(prev)
			prev = w.bhdr[id].BlockHash()
			batch = append(batch, id)
		}
		w.crashStep, w.crashTorn = k, 1<<30
		w.crashAfter = (i+n)%2 == 0
		if w.crashAfter {
			t.Line("crashafter %d", k)
		} else {
			t.Line("crash %d %d", k, w.crashTorn)
		}
		obs := w.run(func() string { return w.writeBlocks(batch, tipH+1) })
		g.emit(strings.TrimSpace("wb "+ids(batch)), obs)
		t.Hit(fmt.Sprintf("store.bulk.crash-at-step-%d.%s", k, obs))
		if obs == "crashed" {
			w.close()
			err := w.open()
			g.emit("reopen", errClass(err))
			if err != nil {
				t.Line("# reopen error: %v", err)
				return
			}
		}
		w.checkAllGone = true
		g.emit("dump", w.dump())
		th, _, err := w.tipB()
		if err != nil {
			return
		}
		if th > tipH {
			g.emit(fmt.Sprintf("rb %d", n), w.run(func() string {
				st, err := w.bs.RollbackBlockHeaders(uint32(n))
				if err != nil {
					return "err"
				}
				return fmt.Sprintf("ok %d:%s", st.Height, w.bname(st.Hash))
			}))
			w.checkAllGone = true
			g.emit("dump", w.dump())
		}
	}
}

// Cases emits n cases.  mode: "plain" (no faults), "faults", "crashes".
func Cases(t *tr.W, r *rand.Rand, n int, mode string) {
	rr := tr.Rng(707)
	for i := 0; i < n; i++ {
		w := newWorld(r)
		g := &gen{w: w, r: r, t: t, crashes: mode == "crashes", faults: mode == "faults"}
		t.Case("store %s", mode)
		g.emit("dump", w.dump())
		nops := 4 + r.Intn(14)
		for j := 0; j < nops; j++ {
			if !g.mutate() {
				break
			}
			g.emit("dump", w.dump())
			g.reads()
			if rr.Intn(5) == 0 {
				g.rangeReads(rr)
			}
		}
		w.destroy()
	}
}

func init() {
	tr.Register("store", func(t *tr.W, thorough bool) {
		r := tr.Rng(7)
		b := tr.EnvInt("VERIF_BUDGET", 1)
		k := 1
		if thorough {
			k = 20
		}
		if os.Getenv("VERIF_SEARCH") != "" {
			// the search pass after a broken tie: three times the quick budget, so that a failing run stays short
			b, k = 1, 3
		}
		deepCase(t, r)
		{
			rb := tr.Rng(7007)
			sz := bulkSizes(rb)
			bulkFaultCase(t, rb, sz[0], []int{1, 2})
			bulkFaultCase(t, rb, sz[1], []int{2, 1, 3})
			bulkFaultCase(t, rb, sz[2], []int{3, 2})
			if thorough {
				bulkFaultCase(t, rb, sz[2], []int{1, 4, 5})
				bulkFaultCase(t, rb, 16001+rb.Intn(400), []int{2, 3, 4, 5, 8})
			}
		}
		Cases(t, r, b*k*tr.EnvInt("STORE_PLAIN", 100), "plain")
		Cases(t, r, b*k*tr.EnvInt("STORE_FAULTS", 130), "faults")
		if template != "" {
			defer os.RemoveAll(template)
		}
	})
	tr.Register("crash", func(t *tr.W, thorough bool) {
		r := tr.Rng(8)
		b := tr.EnvInt("VERIF_BUDGET", 1)
		k := 1
		if thorough {
			k = 20
		}
		if os.Getenv("VERIF_SEARCH") != "" {
			b, k = 1, 3
		}
		InitCases(t, r)
		{
			rb := tr.Rng(8008)
			sz := bulkSizes(rb)
			bulkCrashCase(t, rb, sz[0], []int{2, 1})
			bulkCrashCase(t, rb, sz[1], []int{2, 3, 1})
			bulkCrashCase(t, rb, sz[2], []int{3, 2})
			if thorough {
				bulkCrashCase(t, rb, 16001+rb.Intn(400), []int{2, 3, 4, 5, 8})
			}
		}
		Cases(t, r, b*k*tr.EnvInt("STORE_CRASHES", 220), "crashes")
		if template != "" {
			defer os.RemoveAll(template)
		}
	})
}
