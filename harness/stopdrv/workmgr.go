package stopdrv

// query work manager with REAL workers over silent peers (or no peer at all),
// batches in flight / queued, callers parked on the verdict channel; then Stop.

import (
	"errors"
	"fmt"
	"math/rand"
	"time"

	"github.com/btcsuite/btcd/wire/v2"
	"github.com/lightninglabs/neutrino/query"
	"verifharness/tr"
)

type silentPeer struct {
	addr string
	disc chan struct{}
	sent chan struct{}
}

func (p *silentPeer) QueueMessageWithEncoding(wire.Message, chan<- struct{}, wire.MessageEncoding) {
	select {
	case p.sent <- struct{}{}:
	default:
	}
}
func (p *silentPeer) SubscribeRecvMsg() (<-chan wire.Message, func()) {
	return make(chan wire.Message), func() {}
}
func (p *silentPeer) Addr() string                  { return p.addr }
func (p *silentPeer) OnDisconnect() <-chan struct{} { return p.disc }

func scenWorkMgr(t *tr.W, r *rand.Rand) {
	npeers := r.Intn(4) // 0 = nothing can ever be answered
	nbatch, nreq := 1+r.Intn(3), 1+r.Intn(4)
	moment := []string{"queued", "in-flight", "peer-gone"}[r.Intn(3)]
	t.Case("stop workmgr peers=%d batches=%d reqs=%d moment=%s", npeers, nbatch, nreq, moment)
	peerCh := make(chan query.Peer, 8)
	var peers []*silentPeer
	for i := 0; i < npeers; i++ {
		p := &silentPeer{addr: fmt.Sprintf("10.0.0.%d:18444", i+1), disc: make(chan struct{}), sent: make(chan struct{}, 64)}
		peers = append(peers, p)
		peerCh <- p
	}
	wm := query.NewWorkManager(&query.Config{
		ConnectedPeers: func() (<-chan query.Peer, func(), error) { return peerCh, func() {}, nil },
		NewWorker:      query.NewWorker,
		Ranking:        query.NewPeerRanking(),
	})
	if !call(t, "WorkManager.Start", func() { _ = wm.Start() }) {
		return
	}
	var p parked
	for b := 0; b < nbatch; b++ {
		reqs := make([]*query.Request, nreq)
		for i := range reqs {
			reqs[i] = &query.Request{
				Req:        wire.NewMsgGetData(),
				HandleResp: func(_, _ wire.Message, _ string) query.Progress { return query.Progress{} },
			}
		}
		opts := []query.QueryOption{query.Timeout(time.Hour)}
		if b%2 == 1 {
			opts = append(opts, query.NoRetryMax())
		}
		var errChan chan error
		if !call(t, "WorkManager.Query", func() { errChan = wm.Query(reqs, opts...) }) {
			return
		}
		p.goCall("WorkManager.Query:errChan", func() error { return <-errChan })
	}
	switch moment {
	case "in-flight":
		if npeers > 0 {
			select {
			case <-peers[0].sent:
			case <-time.After(500 * time.Millisecond):
			}
		}
	case "peer-gone":
		if npeers > 0 {
			close(peers[0].disc)
			time.Sleep(time.Duration(r.Intn(3)) * time.Millisecond)
		}
	default:
		time.Sleep(time.Duration(r.Intn(2000)) * time.Microsecond)
	}
	stopOp(t, "workmgr", moment, "WorkManager.Stop", func() { _ = wm.Stop() })
	var late chan error
	if call(t, "WorkManager.Query", func() {
		late = wm.Query([]*query.Request{{Req: wire.NewMsgGetData()}})
	}) {
		p.goCall("WorkManager.Query:errChan", func() error { return <-late })
	}
	p.settle(t)
}

func init() {
	shutdownErrs = append(shutdownErrs, func(err error) bool { return errors.Is(err, query.ErrWorkManagerShuttingDown) })
}
