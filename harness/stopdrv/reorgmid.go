package stopdrv

// Stop in the middle of a DEEP reorganisation roll-back, at every iteration
// (component level, C17 "mid-reorganisation ... and the data directory can be
// reopened afterwards with the guarantees of C01 and C03 intact").
//
// The REAL block handler goroutine (blockManager.Start) of a block manager over
// real header stores is handed a headers message with a heavier fork through
// QueueHeaders: handleHeadersMsg takes the reorganisation arm, rollBackToHeight
// disconnects `depth` blocks one by one, handing a Disconnected notification
// over for each.  The scenario's reader is the only consumer of those
// notifications; the moment it has taken the k-th one (the block handler is
// then between iteration k and k+1 of the roll-back) it calls
// blockManager.Stop - every k from the first to the last-but-two iteration is
// drawn over a run.  After Stop has returned the stores are closed, the
// directory is opened again by fresh stores (start-up reconciliation included)
// and the C01 oracle is evaluated on what THEY report: one linked chain from
// genesis, tip = by-height = by-hash lookups, flat file length = index tip,
// every stored header one of the headers the client was given, filter tip not
// above the block tip.
//
//	case <n> stop blockmanager-reorg-midrollback len=<n> fork=<f> branch=<m> stopat=<k> reader=<gone|keeps-reading>
//	stop blockmanager mid-rollback-<reader> => ok <bucket> | HANG <label>
//	reopen => tip <h>:<id> chain <ok|bad@h> lookups <ok|bad@h> known <ok|bad@h> file <ok|bad> ftip <h> | err <what>
//
// ids: o<h> = header h of the chain stored before, n<h> = header h of the new
// branch, x = anything else.

import (
	"fmt"
	"math/rand"
	"os"
	"path/filepath"
	"time"

	"github.com/btcsuite/btcd/blockchain"
	"github.com/btcsuite/btcd/btcutil/v2"
	"github.com/btcsuite/btcd/chaincfg/v2"
	"github.com/btcsuite/btcd/chainhash/v2"
	"github.com/btcsuite/btcd/wire/v2"
	"github.com/lightninglabs/neutrino"
	"github.com/lightninglabs/neutrino/blockntfns"
	"github.com/lightninglabs/neutrino/headerfs"
	"github.com/lightninglabs/neutrino/query"
	"verifharness/tr"
)

// mineSimnet builds n simnet headers on prev that pass the block manager's header checks.
func mineSimnet(prev *wire.BlockHeader, first time.Time, n int, salt byte) []*wire.BlockHeader {
	target := blockchain.CompactToBig(chaincfg.SimNetParams.PowLimitBits)
	var out []*wire.BlockHeader
	for i := 0; i < n; i++ {
		var merkle chainhash.Hash
		merkle[0], merkle[1] = salt, byte(i)
		h := &wire.BlockHeader{Version: 0x20000000, PrevBlock: prev.BlockHash(), MerkleRoot: merkle,
			Timestamp: first.Add(time.Duration(i) * 10 * time.Minute), Bits: chaincfg.SimNetParams.PowLimitBits}
		for {
			hash := h.BlockHash()
			if blockchain.HashToBig(&hash).Cmp(target) <= 0 {
				break
			}
			h.Nonce++
		}
		out = append(out, h)
		prev = h
	}
	return out
}

// reopenReport opens the directory with fresh stores and evaluates the C01 clauses on what they report.
func reopenReport(dir string, params chaincfg.Params, net *neutrino.VerifCFNet, id func(chainhash.Hash) string) string {
	v, err := neutrino.NewVerifCF(dir, params, net)
	if err != nil {
		return "err open: " + shortErr(err)
	}
	defer v.Close()
	tipHdr, tip, err := v.Block.ChainTip()
	if err != nil {
		return "err ChainTip: " + shortErr(err)
	}
	tipHash := tipHdr.BlockHash()
	chain, lookups, known := "ok", "ok", "ok"
	var prev chainhash.Hash
	for h := uint32(0); h <= tip; h++ {
		hdr, err := v.Block.FetchHeaderByHeight(h)
		if err != nil {
			if lookups == "ok" {
				lookups = fmt.Sprintf("bad@%d", h)
			}
			continue
		}
		hash := hdr.BlockHash()
		if h > 0 && hdr.PrevBlock != prev && chain == "ok" {
			chain = fmt.Sprintf("bad@%d", h)
		}
		prev = hash
		hh, err1 := v.Block.HeightFromHash(&hash)
		byHash, hh2, err2 := v.Block.FetchHeader(&hash)
		if (err1 != nil || hh != h || err2 != nil || hh2 != h || byHash.BlockHash() != hash) && lookups == "ok" {
			lookups = fmt.Sprintf("bad@%d", h)
		}
		if h == tip && hash != tipHash && lookups == "ok" {
			lookups = fmt.Sprintf("bad@%d", h)
		}
		if h > 0 && id(hash) == "x" && known == "ok" {
			known = fmt.Sprintf("bad@%d", h)
		}
	}
	file := "ok"
	if st, err := os.Stat(filepath.Join(dir, "block_headers.bin")); err != nil || st.Size() != int64(tip+1)*80 {
		file = "bad"
	}
	ftip := "err"
	if _, fh, err := v.Filt.ChainTip(); err == nil {
		ftip = fmt.Sprint(fh)
	}
	return fmt.Sprintf("tip %d:%s chain %s lookups %s known %s file %s ftip %s", tip, id(tipHash), chain, lookups, known, file, ftip)
}

func shortErr(err error) string {
	s := err.Error()
	if len(s) > 60 {
		s = s[:60]
	}
	out := []rune{}
	for _, c := range s {
		if c == ' ' || c == '\n' || c == '\t' {
			c = '_'
		}
		out = append(out, c)
	}
	return string(out)
}

func scenReorgStopMidRollback(t *tr.W, r *rand.Rand, k int) {
	n := 8 + r.Intn(4)          // headers stored before
	f := 1 + r.Intn(2)          // the fork point
	depth := n - f              // blocks to disconnect: 6..10
	m := depth + 1 + r.Intn(2)  // the new branch is longer, hence heavier
	k = 1 + (k % (depth - 2))   // Stop once the k-th Disconnected has been taken: at least two iterations remain
	reader := []string{"gone", "keeps-reading"}[r.Intn(2)]
	nfilt := r.Intn(n + 1) // the filter headers have caught up this far
	t.Case("stop blockmanager-reorg-midrollback len=%d fork=%d branch=%d stopat=%d reader=%s filt=%d", n, f, m, k, reader, nfilt)
	t.Hit(fmt.Sprintf("midrollback.stopat.%d", k))
	dir, err := os.MkdirTemp("", "stopmid")
	if err != nil {
		return
	}
	defer os.RemoveAll(dir)
	params := chaincfg.SimNetParams
	start := time.Unix(time.Now().Add(-time.Duration(n+4)*10*time.Minute-2*time.Hour).Unix(), 0)
	old := mineSimnet(&params.GenesisBlock.Header, start, n, 0xa)
	fork := mineSimnet(old[f-1], old[f-1].Timestamp.Add(10*time.Minute), m, 0xb)
	ids := map[chainhash.Hash]string{*params.GenesisHash: "o0"}
	for i, h := range old {
		ids[h.BlockHash()] = fmt.Sprintf("o%d", i+1)
	}
	for i, h := range fork {
		ids[h.BlockHash()] = fmt.Sprintf("n%d", f+i+1)
	}
	id := func(h chainhash.Hash) string {
		if s, ok := ids[h]; ok {
			return s
		}
		return "x"
	}
	net := &neutrino.VerifCFNet{
		QueryAll: func(wire.Message, func(string, wire.Message) bool) {},
		GetBlock: func(chainhash.Hash) (*btcutil.Block, error) { return nil, os.ErrNotExist },
		Query: func([]*query.Request, ...query.QueryOption) chan error {
			c := make(chan error, 1)
			c <- query.ErrWorkManagerShuttingDown
			return c
		},
	}
	v, err := neutrino.NewVerifCF(dir, params, net)
	if err != nil {
		t.Line("# blockmanager-reorg-midrollback scenario skipped: %v", err)
		return
	}
	v.StopDrain()
	// synced during an earlier run: the headers are in the stores when the client starts
	var bhs []headerfs.BlockHeader
	var fhs []headerfs.FilterHeader
	for i, h := range old {
		bhs = append(bhs, headerfs.BlockHeader{BlockHeader: h, Height: uint32(i + 1)})
		if i < nfilt {
			var fh chainhash.Hash
			r.Read(fh[:])
			fhs = append(fhs, headerfs.FilterHeader{HeaderHash: h.BlockHash(), FilterHash: fh, Height: uint32(i + 1)})
		}
	}
	if v.Block.WriteHeaders(bhs...) != nil || (len(fhs) > 0 && v.Filt.WriteHeaders(fhs...) != nil) {
		t.Op("setup", "err")
		v.CloseStores()
		return
	}
	v.CloseStores()
	if v, err = neutrino.NewVerifCF(dir, params, net); err != nil {
		t.Op("setup", "err")
		return
	}
	v.StopDrain()
	closed := false
	defer func() {
		if !closed {
			v.CloseStores()
		}
	}()

	stopStarted := make(chan struct{})
	stopDone := make(chan struct{})
	stopReader := make(chan struct{})
	readerDone := make(chan struct{})
	go func() {
		defer close(readerDone)
		ch := v.NotificationSource().Notifications()
		seen := 0
		for {
			select {
			case ntfn := <-ch:
				if _, ok := ntfn.(*blockntfns.Disconnected); !ok {
					continue
				}
				seen++
				if seen != k {
					continue
				}
				// the block handler is between two iterations of the roll-back: Stop now
				go func() { _ = v.StopHandlers(); close(stopDone) }()
				close(stopStarted)
				// nothing is taken while quit is being closed
				time.Sleep(8 * time.Millisecond)
				if reader == "gone" {
					return
				}
			case <-stopReader:
				return
			}
		}
	}()
	if !call(t, "blockManager.Start", v.StartHandlers) {
		return
	}
	v.QueueHeaders("10.0.4.2:18555", fork)
	select {
	case <-stopStarted:
	case <-time.After(deadline):
		t.Op("setup", "err the reorganisation never reached its "+fmt.Sprint(k)+"-th disconnect")
		go func() { _ = v.StopHandlers() }()
		close(stopReader)
		return
	}
	// Stop has to wait for the rest of the roll-back and the write of the new branch (a dozen database
	// transactions and file syncs): a watchdog of its own, generous enough for a loaded machine
	t0 := time.Now()
	select {
	case <-stopDone:
		b := bucket(time.Since(t0))
		if time.Since(t0) >= deadline {
			b = "<10s"
		}
		t.Op("stop blockmanager mid-rollback-"+reader, "ok "+b)
		t.Hit("stop.ok.blockmanager")
	case <-time.After(10 * time.Second):
		dump("blockManager.rollBackToHeight")
		t.Op("stop blockmanager mid-rollback-"+reader, "HANG blockManager.Stop:mid-rollback-hang")
		t.Hit("stop.hang")
		close(stopReader)
		return
	}
	close(stopReader)
	<-readerDone
	v.CloseStores()
	closed = true
	t.Op("reopen", reopenReport(dir, params, net, id))
}
