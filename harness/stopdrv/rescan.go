package stopdrv

// A real neutrino.Rescan against a mock ChainSource whose GetBlock blocks the
// way ChainService.GetBlock does (until an answer or the client's quit).  The
// rescan goroutine is parked in GetBlock, callers are parked in Update; then
// the "client" stops: its quit releases GetBlock, the rescan's own quit channel
// is closed, and WaitForShutdown / Update / the error channel must all return.

import (
	"errors"
	"math/rand"
	"sync/atomic"
	"time"

	"github.com/btcsuite/btcd/btcutil/v2"
	"github.com/btcsuite/btcd/btcutil/v2/gcs"
	"github.com/btcsuite/btcd/btcutil/v2/gcs/builder"
	"github.com/btcsuite/btcd/chaincfg/v2"
	"github.com/btcsuite/btcd/chainhash/v2"
	"github.com/btcsuite/btcd/rpcclient"
	"github.com/btcsuite/btcd/wire/v2"
	"github.com/lightninglabs/neutrino"
	"github.com/lightninglabs/neutrino/blockntfns"
	"github.com/lightninglabs/neutrino/headerfs"
	"verifharness/tr"
)

var watchedScript = []byte{0x51, 0x52, 0x53}

type rsChain struct {
	blocks   []*wire.MsgBlock
	hashes   []chainhash.Hash
	byHash   map[chainhash.Hash]int
	filters  []*gcs.Filter
	csQuit   chan struct{} // the client's quit: what a blocked GetBlock/GetCFilter of the real client selects on
	inGet    int32
	blockAll bool
	ntfns    chan blockntfns.BlockNtfn
}

func newRsChain(n int) *rsChain {
	c := &rsChain{byHash: map[chainhash.Hash]int{}, csQuit: make(chan struct{}), ntfns: make(chan blockntfns.BlockNtfn)}
	prev := chainhash.Hash{}
	for h := 0; h <= n; h++ {
		b := wire.NewMsgBlock(&wire.BlockHeader{Version: 1, PrevBlock: prev, Timestamp: time.Unix(1600000000+int64(h), 0), Bits: 0x207fffff, Nonce: uint32(h)})
		tx := wire.NewMsgTx(2)
		tx.AddTxIn(&wire.TxIn{PreviousOutPoint: wire.OutPoint{Index: 0xffffffff}, SignatureScript: []byte{byte(h), 1}})
		tx.AddTxOut(&wire.TxOut{Value: 50, PkScript: watchedScript})
		_ = b.AddTransaction(tx)
		f, err := builder.BuildBasicFilter(b, nil)
		if err != nil {
			panic(err)
		}
		c.blocks, c.filters = append(c.blocks, b), append(c.filters, f)
		prev = b.BlockHash()
		c.hashes = append(c.hashes, prev)
		c.byHash[prev] = h
	}
	return c
}

func (c *rsChain) ChainParams() chaincfg.Params { return chaincfg.SimNetParams }
func (c *rsChain) BestBlock() (*headerfs.BlockStamp, error) {
	n := len(c.blocks) - 1
	return &headerfs.BlockStamp{Height: int32(n), Hash: c.hashes[n], Timestamp: c.blocks[n].Header.Timestamp}, nil
}
func (c *rsChain) GetBlockHeaderByHeight(h uint32) (*wire.BlockHeader, error) {
	if int(h) >= len(c.blocks) {
		return nil, errors.New("height not found")
	}
	hdr := c.blocks[h].Header
	return &hdr, nil
}
func (c *rsChain) GetBlockHeader(hash *chainhash.Hash) (*wire.BlockHeader, uint32, error) {
	h, ok := c.byHash[*hash]
	if !ok {
		return nil, 0, errors.New("header not found")
	}
	hdr := c.blocks[h].Header
	return &hdr, uint32(h), nil
}
func (c *rsChain) GetBlock(hash chainhash.Hash, _ ...neutrino.QueryOption) (*btcutil.Block, error) {
	h, ok := c.byHash[hash]
	if !ok {
		return nil, errors.New("block not found")
	}
	if c.blockAll {
		atomic.AddInt32(&c.inGet, 1)
		<-c.csQuit // no peer answers: released only by the client's shutdown
		return nil, neutrino.ErrShuttingDown
	}
	return btcutil.NewBlock(c.blocks[h]), nil
}
func (c *rsChain) GetFilterHeaderByHeight(h uint32) (*chainhash.Hash, error) {
	if int(h) >= len(c.blocks) {
		return nil, errors.New("filter header not found")
	}
	fh := chainhash.DoubleHashH(c.hashes[h][:])
	return &fh, nil
}
func (c *rsChain) GetCFilter(hash chainhash.Hash, _ wire.FilterType, _ ...neutrino.QueryOption) (*gcs.Filter, error) {
	h, ok := c.byHash[hash]
	if !ok {
		return nil, errors.New("filter not found")
	}
	return c.filters[h], nil
}
func (c *rsChain) Subscribe(uint32) (*blockntfns.Subscription, error) {
	return &blockntfns.Subscription{Notifications: c.ntfns, Cancel: func() {}}, nil
}
func (c *rsChain) IsCurrent() bool { return true }

var _ neutrino.ChainSource = (*rsChain)(nil)

// after a few hangs of the client-stop-only variant the verdict is settled
var rescanHangs int

// ownerQuits: the owner of the rescan also closes the rescan's own quit channel
// when the client stops.  Without it the ONLY thing that ends the rescan is the
// client's shutdown failing its fetch; an Update parked at that moment has to be
// released by the rescan's exit alone.
func scenRescan(t *tr.W, r *rand.Rand, ownerQuits bool) {
	n := 3 + r.Intn(6)
	moment := []string{"in-GetBlock", "current"}[r.Intn(2)]
	nupd := r.Intn(3)
	if !ownerQuits {
		if rescanHangs >= 3 {
			return
		}
		moment, nupd = "in-GetBlock", 1+r.Intn(3)
	}
	t.Case("stop rescan len=%d updates=%d moment=%s ownerquits=%v", n, nupd, moment, ownerQuits)
	c := newRsChain(n)
	c.blockAll = moment == "in-GetBlock"
	quit := make(chan struct{})
	rs := neutrino.NewRescan(c,
		neutrino.StartBlock(&headerfs.BlockStamp{Height: 0, Hash: c.hashes[0]}),
		neutrino.WatchInputs(neutrino.InputWithScript{OutPoint: wire.OutPoint{Index: 7}, PkScript: watchedScript}),
		neutrino.NotificationHandlers(rpcclient.NotificationHandlers{
			OnFilteredBlockConnected: func(int32, *wire.BlockHeader, []*btcutil.Tx) {},
		}),
		neutrino.QuitChan(quit),
	)
	var errCh <-chan error
	if !call(t, "Rescan.Start", func() { errCh = rs.Start() }) {
		return
	}
	if c.blockAll {
		for i := 0; i < 400 && atomic.LoadInt32(&c.inGet) == 0; i++ {
			time.Sleep(time.Millisecond)
		}
		t.Op("rescan", map[bool]string{true: "in-GetBlock", false: "not-reached"}[atomic.LoadInt32(&c.inGet) > 0])
	} else {
		time.Sleep(time.Duration(5+r.Intn(20)) * time.Millisecond) // walks to the tip, then waits for notifications
	}
	var p parked
	for i := 0; i < nupd; i++ {
		p.goCall("Rescan.Update", func() error {
			return rs.Update(neutrino.AddInputs(neutrino.InputWithScript{OutPoint: wire.OutPoint{Index: 9}, PkScript: watchedScript}))
		})
	}
	time.Sleep(time.Duration(r.Intn(3)) * time.Millisecond)
	// the client stops (its quit releases blocked fetches) and the owner of the rescan closes its quit channel
	if !ownerQuits {
		// let the Update calls reach the update channel
		time.Sleep(10 * time.Millisecond)
	}
	stopOp(t, "rescan", moment, "Rescan.WaitForShutdown", func() {
		close(c.csQuit)
		if ownerQuits {
			close(quit)
		}
		rs.WaitForShutdown()
	})
	p.goCall("Rescan.Start:errChan", func() error { <-errCh; return neutrino.ErrShuttingDown })
	p.goCall("Rescan.Update", func() error { return rs.Update() })
	before := t.Stats["caller.hang"]
	p.settle(t)
	if !ownerQuits {
		if t.Stats["caller.hang"] > before {
			rescanHangs++
		}
		close(quit) // release whatever is still parked
	}
}

func init() {
	shutdownErrs = append(shutdownErrs, func(err error) bool { return errors.Is(err, neutrino.ErrRescanExit) })
}
