package stopdrv

// Stop called DURING a rebroadcast whose in-flight Broadcast call afterwards
// learns that the transaction has confirmed ("transaction already exists" /
// "txn-already-known" reject): the rebroadcast goroutine has to report the hash
// to the handler, which has already left on quit.  Broadcaster.Stop waits for
// that goroutine, ChainService.Stop waits for Broadcaster.Stop.

import (
	"math/rand"
	"sync/atomic"
	"time"

	"github.com/btcsuite/btcd/wire/v2"
	"github.com/lightninglabs/neutrino/blockntfns"
	"github.com/lightninglabs/neutrino/pushtx"
	"verifharness/tr"
)

// every hang costs a deadline; after a few the verdict is settled
var confirmHangs int

func scenBroadcasterConfirmedAtStop(t *tr.W, r *rand.Rand) {
	ntx := 1 + r.Intn(3)
	lagMs := 5 + r.Intn(30) // how long after Stop was called the peers' "already confirmed" answer arrives
	trigger := []string{"block", "ticker"}[r.Intn(2)]
	if confirmHangs >= 3 {
		return
	}
	t.Case("stop broadcaster txs=%d moment=mid-rebroadcast-confirmed-after-stop lag=%dms trigger=%s", ntx, lagMs, trigger)
	ntfns := make(chan blockntfns.BlockNtfn, 4)
	var accepted int32 // set once every transaction has been accepted by the first broadcast
	var inRe int32
	stopCalled := make(chan struct{})
	interval := time.Hour
	if trigger == "ticker" {
		interval = 30 * time.Millisecond
	}
	cfg := &pushtx.Config{
		Broadcast: func(*wire.MsgTx) error {
			if atomic.LoadInt32(&accepted) == 0 {
				return nil
			}
			atomic.AddInt32(&inRe, 1)
			// the answer of the peers comes back only after Stop has been called
			select {
			case <-stopCalled:
				time.Sleep(time.Duration(lagMs) * time.Millisecond)
			case <-time.After(deadline):
			}
			return &pushtx.BroadcastError{Code: pushtx.Confirmed, Reason: "txn-already-known"}
		},
		SubscribeBlocks: func() (*blockntfns.Subscription, error) {
			return &blockntfns.Subscription{Notifications: ntfns, Cancel: func() {}}, nil
		},
		RebroadcastInterval: interval,
	}
	b := pushtx.NewBroadcaster(cfg)
	if err := b.Start(); err != nil {
		t.Op("start", "err")
		return
	}
	for i := 0; i < ntx; i++ {
		if !call(t, "Broadcaster.Broadcast", func() { _ = b.Broadcast(mkTx(i)) }) {
			return
		}
	}
	atomic.StoreInt32(&accepted, 1)
	if trigger == "block" {
		ntfns <- blockntfns.NewBlockConnected(wire.BlockHeader{}, 1)
	}
	for i := 0; i < 1000 && atomic.LoadInt32(&inRe) == 0; i++ {
		time.Sleep(time.Millisecond)
	}
	t.Op("rebroadcast", map[bool]string{true: "in-Broadcast", false: "not-reached"}[atomic.LoadInt32(&inRe) > 0])
	if !stopOp(t, "broadcaster", "mid-rebroadcast-confirmed-after-stop", "Broadcaster.rebroadcast:confChan", func() {
		close(stopCalled)
		b.Stop()
	}) {
		confirmHangs++
	}
	var p parked
	p.goCall("Broadcaster.Broadcast", func() error { return b.Broadcast(mkTx(99)) })
	p.settle(t)
}
