package stopdrv

// query work manager with REAL workers over ANSWERING peers and batches that
// carry an idle (progress) timeout, as the checkpointed cfheaders sync issues
// them: every successful query of such a batch re-arms its idle timer.  Some
// requests are answered before Stop, the rest of the batch is still in flight
// (or the batch has completed); then Stop.

import (
	"fmt"
	"math/rand"
	"sync"
	"sync/atomic"
	"time"

	"github.com/btcsuite/btcd/wire/v2"
	"github.com/lightninglabs/neutrino/query"
	"verifharness/tr"
)

// echoPeer answers every request with a pong carrying the request's nonce, unless told to stay silent.
type echoPeer struct {
	addr   string
	disc   chan struct{}
	mu     sync.Mutex
	subs   map[chan wire.Message]bool
	silent func(nonce uint64) bool
}

func (p *echoPeer) QueueMessageWithEncoding(msg wire.Message, _ chan<- struct{}, _ wire.MessageEncoding) {
	ping, ok := msg.(*wire.MsgPing)
	if !ok || p.silent(ping.Nonce) {
		return
	}
	go func() {
		p.mu.Lock()
		var chans []chan wire.Message
		for c := range p.subs {
			chans = append(chans, c)
		}
		p.mu.Unlock()
		for _, c := range chans {
			select {
			case c <- wire.NewMsgPong(ping.Nonce):
			case <-time.After(time.Second):
			}
		}
	}()
}
func (p *echoPeer) SubscribeRecvMsg() (<-chan wire.Message, func()) {
	c := make(chan wire.Message)
	p.mu.Lock()
	p.subs[c] = true
	p.mu.Unlock()
	return c, func() {
		p.mu.Lock()
		delete(p.subs, c)
		p.mu.Unlock()
	}
}
func (p *echoPeer) Addr() string                  { return p.addr }
func (p *echoPeer) OnDisconnect() <-chan struct{} { return p.disc }

func scenWorkMgrProgress(t *tr.W, r *rand.Rand) {
	npeers := 1 + r.Intn(3)
	nreq := 2 + r.Intn(5)
	// how many requests of the batch get an answer before Stop: at least one success that does not complete the
	// batch ("mid-batch"), or all of them ("batch-done")
	moment := []string{"mid-batch", "mid-batch", "batch-done"}[r.Intn(3)]
	answered := nreq
	if moment == "mid-batch" {
		answered = 1 + r.Intn(nreq-1)
	}
	t.Case("stop workmgr-progress peers=%d reqs=%d answered=%d moment=%s", npeers, nreq, answered, moment)
	peerCh := make(chan query.Peer, 8)
	for i := 0; i < npeers; i++ {
		peerCh <- &echoPeer{addr: fmt.Sprintf("10.0.2.%d:18444", i+1), disc: make(chan struct{}), subs: map[chan wire.Message]bool{},
			silent: func(nonce uint64) bool { return int(nonce) > answered }}
	}
	wm := query.NewWorkManager(&query.Config{
		ConnectedPeers: func() (<-chan query.Peer, func(), error) { return peerCh, func() {}, nil },
		NewWorker:      query.NewWorker,
		Ranking:        query.NewPeerRanking(),
	})
	if !call(t, "WorkManager.Start", func() { _ = wm.Start() }) {
		return
	}
	var done int32
	reqs := make([]*query.Request, nreq)
	for i := range reqs {
		nonce := uint64(i + 1)
		reqs[i] = &query.Request{
			Req: wire.NewMsgPing(nonce),
			HandleResp: func(_, resp wire.Message, _ string) query.Progress {
				if pong, ok := resp.(*wire.MsgPong); ok && pong.Nonce == nonce {
					atomic.AddInt32(&done, 1)
					return query.Progress{Finished: true, Progressed: true}
				}
				return query.Progress{}
			},
		}
	}
	var p parked
	var errChan chan error
	if !call(t, "WorkManager.Query", func() {
		errChan = wm.Query(reqs, query.NoRetryMax(), query.Timeout(time.Hour), query.ProgressTimeout(time.Minute))
	}) {
		return
	}
	p.goCall("WorkManager.Query:errChan", func() error { return <-errChan })
	// wait until the answers that will come have been processed
	for i := 0; i < 400 && int(atomic.LoadInt32(&done)) < answered; i++ {
		time.Sleep(time.Millisecond)
	}
	t.Op("answered", fmt.Sprintf("%d of %d", atomic.LoadInt32(&done), nreq))
	time.Sleep(time.Duration(r.Intn(3)) * time.Millisecond)
	stopOp(t, "workmgr", moment, "WorkManager.Stop:wg", func() { _ = wm.Stop() })
	p.settle(t)
}
