package stopdrv

// Stop in the middle of a checkpointed filter-header sync (component level, the
// REAL counterparts on both sides of the hand-over): getCheckpointedCFHeaders of
// the real block manager over real header stores issues one batch of 9-11
// requests (two checkpoint intervals each) through the REAL work manager with
// real workers; the peers answer all of them at about the same time, while the
// writer goroutine is kept busy — every response it writes is followed by 2000
// block-connected notifications on an unbuffered channel whose only reader is
// slow or has stopped reading.  The verified responses the writer has not taken
// yet sit between the per-response callback (which runs synchronously on the
// WORKER goroutines) and the writer.
//
// Then the components are stopped in the order of ChainService.Stop: the work
// manager first (its Stop waits for the workers), the block manager (whose quit
// channel the callback listens to) only afterwards.  Both must return within the
// deadline and the sync goroutine must be released.

import (
	"fmt"
	"math/rand"
	"os"
	"sync"
	"sync/atomic"
	"time"

	"github.com/btcsuite/btcd/btcutil/v2"
	"github.com/btcsuite/btcd/chaincfg/v2"
	"github.com/btcsuite/btcd/chainhash/v2"
	"github.com/btcsuite/btcd/wire/v2"
	"github.com/lightninglabs/neutrino"
	"github.com/lightninglabs/neutrino/headerfs"
	"github.com/lightninglabs/neutrino/query"
	"verifharness/tr"
)

// cfhPeer answers getcfheaders from ground truth after a small delay.
type cfhPeer struct {
	addr   string
	disc   chan struct{}
	mu     sync.Mutex
	subs   map[chan wire.Message]bool
	answer func(*wire.MsgGetCFHeaders) *wire.MsgCFHeaders
	delay  time.Duration
}

func (p *cfhPeer) QueueMessageWithEncoding(msg wire.Message, done chan<- struct{}, _ wire.MessageEncoding) {
	if done != nil {
		go func() {
			select {
			case done <- struct{}{}:
			case <-time.After(time.Second):
			}
		}()
	}
	req, ok := msg.(*wire.MsgGetCFHeaders)
	if !ok {
		return
	}
	resp := p.answer(req)
	go func() {
		time.Sleep(p.delay)
		p.mu.Lock()
		var chans []chan wire.Message
		for c := range p.subs {
			chans = append(chans, c)
		}
		p.mu.Unlock()
		for _, c := range chans {
			select {
			case c <- resp:
			case <-time.After(time.Second):
			}
		}
	}()
}

func (p *cfhPeer) SubscribeRecvMsg() (<-chan wire.Message, func()) {
	c := make(chan wire.Message)
	p.mu.Lock()
	p.subs[c] = true
	p.mu.Unlock()
	return c, func() {
		p.mu.Lock()
		delete(p.subs, c)
		p.mu.Unlock()
	}
}
func (p *cfhPeer) Addr() string                  { return p.addr }
func (p *cfhPeer) OnDisconnect() <-chan struct{} { return p.disc }

// consumer: "stalled" — the reader of the notifications takes `taken` of them and then nothing until the components
// have been stopped; "slow" — it takes one notification per millisecond (a response of 2000 headers keeps the writer
// busy for two seconds).
func scenCFCheckptStop(t *tr.W, r *rand.Rand, consumer string) {
	interval := int(wire.CFCheckptInterval)
	per := neutrino.VerifMaxCFCheckptsPerQuery
	nreq := 9 + r.Intn(3)
	n := nreq * per * interval
	npeers := 3 + r.Intn(2)
	// how many notifications the reader takes before it stops reading (stalled): the writer gets stuck somewhere in the
	// first response it writes (it may have taken a few more from the channel before — responses that arrived ahead of
	// the one it needs next are set aside — so the batch is a few requests larger than what is needed on paper)
	taken := r.Intn(per*interval - 200)
	t.Case("stop cfcheckpt-sync reqs=%d peers=%d consumer=%s taken=%d", nreq, npeers, consumer, taken)

	dir, err := os.MkdirTemp("", "stopcf")
	if err != nil {
		return
	}
	defer os.RemoveAll(dir)
	peerCh := make(chan query.Peer, npeers)
	wm := query.NewWorkManager(&query.Config{
		ConnectedPeers: func() (<-chan query.Peer, func(), error) { return peerCh, func() {}, nil },
		NewWorker:      query.NewWorker,
		Ranking:        query.NewPeerRanking(),
	})
	net := &neutrino.VerifCFNet{
		QueryAll: func(wire.Message, func(string, wire.Message) bool) {},
		GetBlock: func(chainhash.Hash) (*btcutil.Block, error) { return nil, os.ErrNotExist },
		Query:    wm.Query,
	}
	v, err := neutrino.NewVerifCF(dir, chaincfg.SimNetParams, net)
	if err != nil {
		t.Line("# cfcheckpt-sync scenario skipped: %v", err)
		return
	}
	v.StopDrain() // the scenario's own reader takes the notifications
	defer v.CloseStores()

	// block headers 1..n on top of genesis (written to the store directly), ground-truth filter hashes / headers
	prev, _, err := v.Block.ChainTip()
	if err != nil {
		return
	}
	hashes := make([]chainhash.Hash, n+1)
	hashes[0] = prev.BlockHash()
	byHash := map[chainhash.Hash]int{hashes[0]: 0}
	var batch []headerfs.BlockHeader
	for h := 1; h <= n; h++ {
		hdr := &wire.BlockHeader{Version: 1, PrevBlock: hashes[h-1], Timestamp: time.Unix(1600000000+int64(h), 0), Bits: 0x207fffff, Nonce: uint32(h)}
		hashes[h] = hdr.BlockHash()
		byHash[hashes[h]] = h
		batch = append(batch, headerfs.BlockHeader{BlockHeader: hdr, Height: uint32(h)})
		if len(batch) == 2000 || h == n {
			if v.Block.WriteHeaders(batch...) != nil {
				t.Op("setup", "err")
				return
			}
			batch = nil
		}
	}
	g, err := v.Filt.FetchHeaderByHeight(0)
	if err != nil {
		return
	}
	fhash := make([]chainhash.Hash, n+1)
	fhdr := make([]chainhash.Hash, n+1)
	fhdr[0] = *g
	for h := 1; h <= n; h++ {
		r.Read(fhash[h][:])
		fhdr[h] = chainhash.DoubleHashH(append(fhash[h][:], fhdr[h-1][:]...))
	}
	var cps []*chainhash.Hash
	for h := interval; h <= n; h += interval {
		c := fhdr[h]
		cps = append(cps, &c)
	}
	var answered int32
	answer := func(req *wire.MsgGetCFHeaders) *wire.MsgCFHeaders {
		stop, ok := byHash[req.StopHash]
		resp := wire.NewMsgCFHeaders()
		resp.FilterType, resp.StopHash = req.FilterType, req.StopHash
		if !ok || int(req.StartHeight) < 1 || int(req.StartHeight) > stop {
			return resp
		}
		resp.PrevFilterHeader = fhdr[req.StartHeight-1]
		for h := int(req.StartHeight); h <= stop; h++ {
			fh := fhash[h]
			_ = resp.AddCFHash(&fh)
		}
		atomic.AddInt32(&answered, 1)
		return resp
	}
	for i := 0; i < npeers; i++ {
		peerCh <- &cfhPeer{addr: fmt.Sprintf("10.0.3.%d:18555", i+1), disc: make(chan struct{}), subs: map[chan wire.Message]bool{},
			answer: answer, delay: time.Duration(1+r.Intn(3)) * time.Millisecond}
	}
	if !call(t, "WorkManager.Start", func() { _ = wm.Start() }) {
		return
	}
	time.Sleep(20 * time.Millisecond) // the dispatcher starts one worker per peer

	// the only reader of the block manager's notifications
	release := make(chan struct{})
	readerDone := make(chan struct{})
	var nread int32
	go func() {
		defer close(readerDone)
		ch := v.NotificationSource().Notifications()
		for {
			if consumer == "stalled" && int(atomic.LoadInt32(&nread)) >= taken {
				<-release
				taken = 1 << 30
			}
			select {
			case <-ch:
				atomic.AddInt32(&nread, 1)
				if consumer == "slow" {
					time.Sleep(time.Millisecond)
				}
			case <-release:
				// drain what is left, briefly
				for {
					select {
					case <-ch:
					case <-time.After(50 * time.Millisecond):
						return
					}
				}
			}
		}
	}()

	var p parked
	p.goCall("blockManager.getCheckpointedCFHeaders", func() error {
		if err := v.GetCheckpointedCFHeaders(cps); err != nil {
			return err
		}
		return neutrino.ErrShuttingDown
	})
	// every request has been answered by some peer, and the workers had time to run the callbacks
	for i := 0; i < 1000 && int(atomic.LoadInt32(&answered)) < nreq; i++ {
		time.Sleep(time.Millisecond)
	}
	time.Sleep(time.Duration(20+r.Intn(20)) * time.Millisecond)
	_, ftip, _ := v.Filt.ChainTip()
	mid := int(ftip) < n
	t.Op("answered", fmt.Sprintf("%d of %d sync=%s", atomic.LoadInt32(&answered), nreq, map[bool]string{true: "mid", false: "done"}[mid]))
	t.Hit("cfcheckpt.stop." + map[bool]string{true: "mid-sync", false: "after-sync"}[mid])

	// ChainService.Stop order: the work manager first ...
	wmDone := make(chan struct{})
	d, ok := timed(func() { defer close(wmDone); _ = wm.Stop() })
	if ok {
		t.Op("stop workmgr mid-cfheaders-sync", "ok "+bucket(d))
		t.Hit("stop.ok.workmgr")
	} else {
		// which site keeps the work manager's Stop from returning: named by the parked goroutine
		label := "WorkManager.Stop:wg"
		if stacksContain("checkpointedCFHeadersQuery).handleResponse") {
			label = "checkpointedCFHeadersQuery.handleResponse:headerChan"
		}
		dump(label)
		t.Op("stop workmgr mid-cfheaders-sync", "HANG "+label)
		t.Hit("stop.hang")
	}
	// ... then the block manager (its handlers are not running here: closing its quit channel is what its Stop does first)
	stopOp(t, "blockmanager", "mid-cfheaders-sync", "blockManager.Stop", v.Quit)
	p.settle(t)
	close(release)
	select {
	case <-readerDone:
	case <-time.After(deadline):
	}
	// a work manager whose Stop hung is released by the block manager's quit; do not leave it behind
	select {
	case <-wmDone:
	case <-time.After(deadline):
	}
}
