package stopdrv

// Directed reproduction of a C17 finding on a REAL ChainService that never
// gets a peer (no network needed): a UTXO scan is waiting in GetBlock when Stop
// is called.  (General full-client Stop scenarios belong to the end-to-end package.)

import (
	"context"
	"math/rand"
	"net"
	"os"
	"path/filepath"
	"runtime"
	"strings"
	"time"

	"github.com/btcsuite/btcd/chaincfg/v2"
	"github.com/btcsuite/btcd/wire/v2"
	"github.com/btcsuite/btcwallet/walletdb"
	_ "github.com/btcsuite/btcwallet/walletdb/bdb"
	"github.com/lightninglabs/neutrino"
	"github.com/lightninglabs/neutrino/headerfs"
	"verifharness/tr"
)

func stacksContain(needles ...string) bool {
	buf := make([]byte, 1<<20)
	s := string(buf[:runtime.Stack(buf, true)])
	for _, n := range needles {
		if !strings.Contains(s, n) {
			return false
		}
	}
	return true
}

func chainServiceScenarios(t *tr.W, r *rand.Rand) {
	neutrino.DisableDNSSeed = true
	dir, err := os.MkdirTemp("", "stopdrv-cs")
	if err != nil {
		return
	}
	defer os.RemoveAll(dir)
	db, err := walletdb.Create("bdb", filepath.Join(dir, "w.db"), true, time.Minute, false)
	if err != nil {
		t.Line("# chainservice scenario skipped: %v", err)
		return
	}
	defer db.Close()
	cs, err := neutrino.NewChainService(neutrino.Config{
		DataDir: dir, Database: db, ChainParams: chaincfg.SimNetParams,
		Dialer:       func(net.Addr) (net.Conn, error) { return nil, os.ErrDeadlineExceeded },
		NameResolver: func(string) ([]net.IP, error) { return nil, os.ErrNotExist },
	})
	if err != nil {
		t.Line("# chainservice scenario skipped: %v", err)
		return
	}
	t.Case("stop chainservice peers=0 moment=utxoscan-in-GetBlock")
	if err := cs.Start(context.Background()); err != nil {
		t.Op("start", "err")
		return
	}
	var p parked
	p.goCall("ChainService.GetUtxo", func() error {
		_, err := cs.GetUtxo(
			neutrino.WatchInputs(neutrino.InputWithScript{OutPoint: wire.OutPoint{Index: 1}, PkScript: []byte{0x51}}),
			neutrino.StartBlock(&headerfs.BlockStamp{Height: 0, Hash: *chaincfg.SimNetParams.GenesisHash}),
		)
		return err
	})
	// wait until the scanner's goroutine is inside GetBlock
	in := false
	for i := 0; i < 400 && !in; i++ {
		time.Sleep(5 * time.Millisecond)
		in = stacksContain("UtxoScanner).scanFromHeight", "ChainService).GetBlock")
	}
	t.Op("scan", map[bool]string{true: "in-GetBlock", false: "not-reached"}[in])
	// which site keeps Stop from returning: named by the parked goroutine of the scanner
	label := "ChainService.Stop"
	if in {
		label = "ChainService.GetBlock:errChan"
	}
	stopOp(t, "chainservice", "utxoscan-in-GetBlock", label, func() { _ = cs.Stop() })
	p.settle(t)
}
