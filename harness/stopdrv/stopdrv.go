// Package stopdrv: component-level shutdown scenarios on the REAL code (C17).
//
// Every scenario builds one component, parks some callers in its API, calls
// Stop at a generated moment and requires (1) Stop to return within the
// deadline and (2) every parked caller to return within the deadline.  A miss
// is reported as the observation `HANG <label>` after dumping all goroutines
// to $TMPDIR; the Lean driver turns it into ORACLE-FAIL C17 shape=<label>.
//
//	case <n> stop <component> <parameters>
//	stop <component> <moment> => ok <bucket> | HANG <label>
//	caller <label> => returned <err-class> | HANG <label>
package stopdrv

import (
	"errors"
	"fmt"
	"math/rand"
	"os"
	"path/filepath"
	"runtime"
	"strings"
	"sync"
	"sync/atomic"
	"time"

	"github.com/btcsuite/btcd/btcutil/v2"
	"github.com/btcsuite/btcd/chaincfg/v2"
	"github.com/btcsuite/btcd/chainhash/v2"
	"github.com/btcsuite/btcd/wire/v2"
	"github.com/lightninglabs/neutrino"
	"github.com/lightninglabs/neutrino/blockntfns"
	"github.com/lightninglabs/neutrino/chanutils"
	"github.com/lightninglabs/neutrino/headerfs"
	"github.com/lightninglabs/neutrino/pushtx"
	"verifharness/tr"
)

func init() { tr.Register("stop", Run) }

const deadline = 2 * time.Second

var dumps int32

func dump(label string) {
	n := atomic.AddInt32(&dumps, 1)
	if n > 6 {
		return
	}
	buf := make([]byte, 1<<20)
	buf = buf[:runtime.Stack(buf, true)]
	name := fmt.Sprintf("stopdrv-hang-%d-%s.txt", n, strings.NewReplacer("/", "_", ":", "_", " ", "_").Replace(label))
	_ = os.WriteFile(filepath.Join(os.TempDir(), name), buf, 0o644)
}

func bucket(d time.Duration) string {
	switch {
	case d < 10*time.Millisecond:
		return "<10ms"
	case d < 100*time.Millisecond:
		return "<100ms"
	case d < time.Second:
		return "<1s"
	}
	return "<2s"
}

// timed runs f and waits for it up to the deadline.
func timed(f func()) (time.Duration, bool) {
	done := make(chan struct{})
	t0 := time.Now()
	go func() {
		defer func() { recover(); close(done) }()
		f()
	}()
	select {
	case <-done:
		return time.Since(t0), true
	case <-time.After(deadline):
		return deadline, false
	}
}

// parked is a set of goroutines sitting in API calls of the component.
type parked struct {
	mu    sync.Mutex
	label []string
	done  []chan string
}

func (p *parked) goCall(label string, f func() error) {
	ch := make(chan string, 1)
	p.mu.Lock()
	p.label = append(p.label, label)
	p.done = append(p.done, ch)
	p.mu.Unlock()
	go func() {
		defer func() {
			if r := recover(); r != nil {
				ch <- "PANIC"
			}
		}()
		ch <- errClass(f())
	}()
}

// shutdownErrs: further shutdown/cancellation errors contributed by the scenario files
var shutdownErrs []func(error) bool

func errClass(err error) string {
	for _, f := range shutdownErrs {
		if err != nil && f(err) {
			return "shutdown"
		}
	}
	switch {
	case err == nil:
		return "nil"
	case errors.Is(err, neutrino.ErrShuttingDown), errors.Is(err, pushtx.ErrBroadcasterStopped),
		errors.Is(err, blockntfns.ErrSubscriptionManagerStopped), errors.Is(err, neutrino.ErrGetUtxoCancelled):
		return "shutdown"
	}
	return "err"
}

// settle requires every parked caller to have returned by the deadline (counted from now).
func (p *parked) settle(t *tr.W) {
	limit := time.After(deadline)
	expired := false
	for i, ch := range p.done {
		r := ""
		if expired {
			// the deadline has passed for everybody still parked
			select {
			case r = <-ch:
			default:
			}
		} else {
			select {
			case r = <-ch:
			case <-limit:
				expired = true
				select {
				case r = <-ch:
				default:
				}
			}
		}
		if r != "" {
			t.Op("caller "+p.label[i], "returned "+r)
			t.Hit("caller.returned." + r)
			continue
		}
		dump(p.label[i])
		t.Op("caller "+p.label[i], "HANG "+p.label[i])
		t.Hit("caller.hang")
	}
}

// call runs a synchronous API call of a scenario under the watchdog: a call that never returns is an observation,
// not a stuck driver.  Returns false when it hung.
func call(t *tr.W, label string, f func()) bool {
	if _, ok := timed(f); !ok {
		dump(label)
		t.Op("call "+label, "HANG "+label)
		t.Hit("call.hang")
		return false
	}
	return true
}

func stopOp(t *tr.W, comp, moment, label string, stop func()) bool {
	d, ok := timed(stop)
	if !ok {
		dump(label)
		t.Op("stop "+comp+" "+moment, "HANG "+label)
		t.Hit("stop.hang")
		return false
	}
	t.Op("stop "+comp+" "+moment, "ok "+bucket(d))
	t.Hit("stop.ok." + comp)
	return true
}

// ---- blockntfns.SubscriptionManager with stalled subscribers -----------------

type ntfnSource struct {
	ch    chan blockntfns.BlockNtfn
	slow  time.Duration
	best  uint32
	calls int32
}

func (s *ntfnSource) Notifications() <-chan blockntfns.BlockNtfn { return s.ch }
func (s *ntfnSource) NotificationsSinceHeight(h uint32) ([]blockntfns.BlockNtfn, uint32, error) {
	atomic.AddInt32(&s.calls, 1)
	time.Sleep(s.slow)
	var out []blockntfns.BlockNtfn
	for i := h + 1; i <= s.best; i++ {
		out = append(out, blockntfns.NewBlockConnected(wire.BlockHeader{Nonce: i}, i))
	}
	return out, s.best, nil
}

func scenSubMgr(t *tr.W, r *rand.Rand) {
	nsub, nstalled, nev := 1+r.Intn(4), r.Intn(3), r.Intn(60)
	backlog := uint32(r.Intn(50))
	moment := []string{"idle", "mid-emit", "mid-subscribe"}[r.Intn(3)]
	t.Case("stop submgr subs=%d stalled=%d events=%d backlog=%d moment=%s", nsub, nstalled, nev, backlog, moment)
	src := &ntfnSource{ch: make(chan blockntfns.BlockNtfn), best: backlog + 1}
	if moment == "mid-subscribe" {
		src.slow = 20 * time.Millisecond
	}
	m := blockntfns.NewSubscriptionManager(src)
	m.Start()
	var p parked
	for i := 0; i < nsub; i++ {
		var sub *blockntfns.Subscription
		var err error
		if !call(t, "SubscriptionManager.NewSubscription", func() { sub, err = m.NewSubscription(1) }) {
			return
		}
		if err != nil {
			t.Op("subscribe", "err")
			continue
		}
		stalled := i < nstalled
		if !stalled {
			// a reader that must see its channel closed by Stop
			p.goCall("Subscription.Notifications", func() error {
				for range sub.Notifications {
				}
				return neutrino.ErrShuttingDown
			})
		}
	}
	emitDone := make(chan struct{})
	go func() {
		defer close(emitDone)
		for i := 0; i < nev; i++ {
			select {
			case src.ch <- blockntfns.NewBlockConnected(wire.BlockHeader{Nonce: uint32(1000 + i)}, backlog+2+uint32(i)):
			case <-time.After(deadline):
				return
			}
		}
	}()
	switch moment {
	case "idle":
		<-emitDone
	case "mid-subscribe":
		for i := 0; i < 3; i++ {
			p.goCall("SubscriptionManager.NewSubscription", func() error {
				s, err := m.NewSubscription(1)
				if err == nil {
					go s.Cancel()
				}
				return err
			})
		}
		time.Sleep(time.Duration(r.Intn(30)) * time.Millisecond)
	default:
		time.Sleep(time.Duration(r.Intn(3000)) * time.Microsecond)
	}
	stopOp(t, "submgr", moment, "SubscriptionManager.Stop", m.Stop)
	p.goCall("SubscriptionManager.NewSubscription", func() error { _, err := m.NewSubscription(0); return err })
	p.settle(t)
}

// ---- pushtx.Broadcaster mid-broadcast / mid-rebroadcast ----------------------

func mkTx(i int) *wire.MsgTx {
	tx := wire.NewMsgTx(2)
	tx.AddTxIn(&wire.TxIn{PreviousOutPoint: wire.OutPoint{Index: uint32(i)}})
	tx.AddTxOut(&wire.TxOut{Value: int64(i)})
	return tx
}

func scenBroadcaster(t *tr.W, r *rand.Rand, markAfterStop bool) {
	ntx, slowMs := 1+r.Intn(4), r.Intn(40)
	moment := []string{"idle", "mid-broadcast", "mid-rebroadcast"}[r.Intn(3)]
	t.Case("stop broadcaster txs=%d slow=%dms moment=%s markAfterStop=%v", ntx, slowMs, moment, markAfterStop)
	ntfns := make(chan blockntfns.BlockNtfn, 4)
	var inBroadcast int32
	cfg := &pushtx.Config{
		Broadcast: func(*wire.MsgTx) error {
			atomic.AddInt32(&inBroadcast, 1)
			time.Sleep(time.Duration(slowMs) * time.Millisecond)
			return nil
		},
		SubscribeBlocks: func() (*blockntfns.Subscription, error) {
			return &blockntfns.Subscription{Notifications: ntfns, Cancel: func() {}}, nil
		},
		RebroadcastInterval: time.Hour,
	}
	b := pushtx.NewBroadcaster(cfg)
	if err := b.Start(); err != nil {
		t.Op("start", "err")
		return
	}
	var p parked
	if moment != "mid-broadcast" {
		for i := 0; i < ntx; i++ {
			if !call(t, "Broadcaster.Broadcast", func() { _ = b.Broadcast(mkTx(i)) }) {
				return
			}
		}
	}
	switch moment {
	case "mid-broadcast":
		for i := 0; i < ntx; i++ {
			tx := mkTx(i)
			p.goCall("Broadcaster.Broadcast", func() error { return b.Broadcast(tx) })
		}
		time.Sleep(time.Duration(r.Intn(5)) * time.Millisecond)
	case "mid-rebroadcast":
		ntfns <- blockntfns.NewBlockConnected(wire.BlockHeader{}, 1)
		time.Sleep(time.Duration(r.Intn(5)) * time.Millisecond)
		if markAfterStop {
			// also F8: the send may still be pending when the handler leaves on quit
			p.goCall("Broadcaster.MarkAsConfirmed:confChan", func() error { b.MarkAsConfirmed(mkTx(0).TxHash()); return nil })
		} else {
			// confirmed while the handler is running: must be consumed before Stop is called
			d, ok := timed(func() { b.MarkAsConfirmed(mkTx(0).TxHash()) })
			if ok {
				t.Op("markconfirmed running", "ok "+bucket(d))
			} else {
				dump("Broadcaster.MarkAsConfirmed:running")
				t.Op("markconfirmed running", "HANG Broadcaster.MarkAsConfirmed:running")
			}
		}
	}
	stopOp(t, "broadcaster", moment, "Broadcaster.Stop", b.Stop)
	p.goCall("Broadcaster.Broadcast", func() error { return b.Broadcast(mkTx(99)) })
	if markAfterStop {
		// F8: a bare send on confChan; the handler is gone
		p.goCall("Broadcaster.MarkAsConfirmed:confChan", func() error { b.MarkAsConfirmed(mkTx(0).TxHash()); return nil })
	}
	p.settle(t)
}

// ---- UtxoScanner mid-scan with a slow GetBlock -------------------------------

func anyMatch[T any](_ T, _ *chainhash.Hash) (bool, error) { return false, nil }

func scenScanner(t *tr.W, r *rand.Rand) {
	nreq, slowMs := 1+r.Intn(4), r.Intn(120)
	moment := []string{"idle", "mid-getblock", "queued"}[r.Intn(3)]
	t.Case("stop utxoscanner reqs=%d getblock=%dms moment=%s", nreq, slowMs, moment)
	genesis := chaincfg.SimNetParams.GenesisBlock
	var inGet int32
	cfg := &neutrino.UtxoScannerConfig{
		BestSnapshot: func() (*headerfs.BlockStamp, error) {
			return &headerfs.BlockStamp{Height: 0, Hash: *chaincfg.SimNetParams.GenesisHash}, nil
		},
		GetBlockHash: func(int64) (*chainhash.Hash, error) { return chaincfg.SimNetParams.GenesisHash, nil },
		GetBlock: func(chainhash.Hash, ...neutrino.QueryOption) (*btcutil.Block, error) {
			atomic.AddInt32(&inGet, 1)
			time.Sleep(time.Duration(slowMs) * time.Millisecond)
			return btcutil.NewBlock(genesis), nil
		},
	}
	cfg.BlockFilterMatches = anyMatch
	s := neutrino.NewUtxoScanner(cfg)
	_ = s.Start()
	var p parked
	enqueue := func(i int) {
		var req *neutrino.GetUtxoRequest
		var err error
		if !call(t, "UtxoScanner.Enqueue", func() {
			req, err = s.Enqueue(&neutrino.InputWithScript{OutPoint: wire.OutPoint{Index: uint32(i)}, PkScript: []byte{0x51}}, 0, nil)
		}) {
			return
		}
		if err != nil {
			t.Hit("scanner.enqueue.refused")
			return
		}
		p.goCall("GetUtxoRequest.Result", func() error { _, err := req.Result(nil); return err })
	}
	if moment != "idle" {
		for i := 0; i < nreq; i++ {
			enqueue(i)
		}
	}
	switch moment {
	case "mid-getblock":
		for i := 0; i < 200 && atomic.LoadInt32(&inGet) == 0; i++ {
			time.Sleep(time.Millisecond)
		}
	case "queued":
		time.Sleep(time.Duration(r.Intn(2000)) * time.Microsecond)
	}
	stopOp(t, "utxoscanner", moment, "UtxoScanner.Stop", func() { _ = s.Stop() })
	enqueue(100)
	p.settle(t)
}

// ---- chanutils.BatchWriter with a pending batch ------------------------------

func scenBatchWriter(t *tr.W, r *rand.Rand) {
	nitems, maxBatch, slowMs := r.Intn(40), 1+r.Intn(10), r.Intn(20)
	t.Case("stop batchwriter items=%d maxbatch=%d put=%dms", nitems, maxBatch, slowMs)
	var mu sync.Mutex
	written := 0
	w := chanutils.NewBatchWriter(&chanutils.BatchWriterConfig[int]{
		QueueBufferSize: 4, MaxBatch: maxBatch, DBWritesTickerDuration: time.Hour,
		PutItems: func(xs ...int) error {
			time.Sleep(time.Duration(slowMs) * time.Millisecond)
			mu.Lock()
			written += len(xs)
			mu.Unlock()
			return nil
		},
	})
	w.Start()
	var p parked
	p.goCall("BatchWriter.AddItem", func() error {
		for i := 0; i < nitems; i++ {
			w.AddItem(i)
		}
		return nil
	})
	// all items are in the queue before Stop (AddItem concurrent with Stop is outside the component's contract:
	// inside the client its only callers are worker goroutines that are gone by then, see the discharge table)
	p.settle(t)
	time.Sleep(time.Duration(r.Intn(3)) * time.Millisecond)
	stopOp(t, "batchwriter", "pending", "BatchWriter.Stop", w.Stop)
	mu.Lock()
	t.Op("written", fmt.Sprintf("%d of %d", written, nitems))
	mu.Unlock()
}

func Run(t *tr.W, thorough bool) {
	r := tr.Rng(17)
	rcf := tr.Rng(1717) // own stream: the cfheaders-sync scenario does not shift the draws of the others
	rmid := tr.Rng(171717)
	n := 12 * tr.EnvInt("VERIF_BUDGET", 1)
	if thorough {
		n *= 4
	}
	if n > 60 {
		n = 60 // every scenario sleeps real time; the search tier must stay within minutes
	}
	for i := 0; i < n; i++ {
		scenSubMgr(t, r)
		scenBroadcaster(t, r, false)
		scenBroadcasterConfirmedAtStop(t, r)
		scenScanner(t, r)
		scenBatchWriter(t, r)
		scenWorkMgr(t, r)
		scenWorkMgrProgress(t, r)
		scenRescan(t, r, true)
		scenRescan(t, r, false)
		if i%3 == 0 {
			scenReorgStop(t, r) // opens real stores: a few per run
			// Stop between two iterations of a deep reorganisation roll-back inside the real block handler,
			// then reopen the directory (C01 oracle on the reopened stores); a stream of its own
			scenReorgStopMidRollback(t, rmid, i/3+rmid.Intn(8))
		}
		if i%6 == 0 {
			// writes >= 16000 headers to real stores: two per quick run, one with each kind of reader
			scenCFCheckptStop(t, rcf, []string{"stalled", "slow"}[(i/6)%2])
		}
	}
	// recorded finding F8, reproduced once per run (costs one deadline)
	scenBroadcaster(t, r, true)
	chainServiceScenarios(t, r)
}
