package stopdrv

// Stop during a reorganisation (component level): the REAL block manager over
// real header stores is rolling back several blocks (rollBackToHeight on a
// goroutine its Stop waits for, as the block handler is), the REAL
// SubscriptionManager is the only reader of its notifications.  As in
// ChainService.Stop the subscription manager is stopped first, while
// Disconnected notifications are still being handed over; then the block
// manager is stopped.  Both must return, and the roll-back must be released.

import (
	"math/rand"
	"os"
	"time"

	"github.com/btcsuite/btcd/btcutil/v2"
	"github.com/btcsuite/btcd/chaincfg/v2"
	"github.com/btcsuite/btcd/chainhash/v2"
	"github.com/btcsuite/btcd/wire/v2"
	"github.com/lightninglabs/neutrino"
	"github.com/lightninglabs/neutrino/blockntfns"
	"github.com/lightninglabs/neutrino/headerfs"
	"github.com/lightninglabs/neutrino/query"
	"verifharness/tr"
)

func scenReorgStop(t *tr.W, r *rand.Rand) {
	n := 6 + r.Intn(6)
	depth := 3 + r.Intn(n-4)
	moment := []string{"first-disconnect-seen", "before-any-disconnect-taken", "reader-keeps-up"}[r.Intn(3)]
	t.Case("stop blockmanager-reorg len=%d depth=%d moment=%s", n, depth, moment)
	dir, err := os.MkdirTemp("", "stopreorg")
	if err != nil {
		return
	}
	defer os.RemoveAll(dir)
	net := &neutrino.VerifCFNet{
		QueryAll: func(wire.Message, func(string, wire.Message) bool) {},
		GetBlock: func(chainhash.Hash) (*btcutil.Block, error) { return nil, os.ErrNotExist },
		Query: func([]*query.Request, ...query.QueryOption) chan error {
			c := make(chan error, 1)
			c <- query.ErrWorkManagerShuttingDown
			return c
		},
	}
	v, err := neutrino.NewVerifCF(dir, chaincfg.SimNetParams, net)
	if err != nil {
		t.Line("# blockmanager-reorg scenario skipped: %v", err)
		return
	}
	v.StopDrain()
	defer v.CloseStores()
	prev, _, err := v.Block.ChainTip()
	if err != nil {
		return
	}
	ph := prev.BlockHash()
	var bhs []headerfs.BlockHeader
	var fhs []headerfs.FilterHeader
	for h := 1; h <= n; h++ {
		hdr := &wire.BlockHeader{Version: 1, PrevBlock: ph, Timestamp: time.Unix(1600000000+int64(h), 0), Bits: 0x207fffff, Nonce: uint32(h)}
		ph = hdr.BlockHash()
		bhs = append(bhs, headerfs.BlockHeader{BlockHeader: hdr, Height: uint32(h)})
		var fh chainhash.Hash
		r.Read(fh[:])
		fhs = append(fhs, headerfs.FilterHeader{HeaderHash: ph, FilterHash: fh, Height: uint32(h)})
	}
	if v.Block.WriteHeaders(bhs...) != nil || v.Filt.WriteHeaders(fhs...) != nil {
		t.Op("setup", "err")
		return
	}
	sm := blockntfns.NewSubscriptionManager(v.NotificationSource())
	sm.Start()
	var sub *blockntfns.Subscription
	if !call(t, "SubscriptionManager.NewSubscription", func() { sub, err = sm.NewSubscription(0) }) || err != nil {
		return
	}
	firstDisc := make(chan struct{}, 1)
	var p parked
	p.goCall("Subscription.Notifications", func() error {
		for ntfn := range sub.Notifications {
			if _, ok := ntfn.(*blockntfns.Disconnected); ok {
				select {
				case firstDisc <- struct{}{}:
				default:
				}
			}
		}
		return neutrino.ErrShuttingDown
	})
	if !call(t, "blockManager.Start", v.StartHandlers) {
		return
	}
	var res <-chan error
	switch moment {
	case "before-any-disconnect-taken":
		// the reader is gone before the reorganisation hands over its first notification
		stopOp(t, "submgr", moment, "SubscriptionManager.Stop", sm.Stop)
		res = v.RollBackOnHandler(uint32(n - depth))
		time.Sleep(time.Duration(5+r.Intn(30)) * time.Millisecond)
	case "reader-keeps-up":
		res = v.RollBackOnHandler(uint32(n - depth))
		select {
		case err := <-res:
			t.Op("rollback", errClass(err))
			res = nil
		case <-time.After(deadline):
		}
		stopOp(t, "submgr", moment, "SubscriptionManager.Stop", sm.Stop)
	default:
		res = v.RollBackOnHandler(uint32(n - depth))
		select {
		case <-firstDisc:
		case <-time.After(deadline):
		}
		stopOp(t, "submgr", moment, "SubscriptionManager.Stop", sm.Stop)
	}
	// the blocked site, should Stop not return: the hand-over of a Disconnected notification
	stopOp(t, "blockmanager", moment, "blockManager.onBlockDisconnected:blockNtfnChan", func() { _ = v.StopHandlers() })
	if res != nil {
		p.goCall("blockManager.rollBackToHeight", func() error { <-res; return neutrino.ErrShuttingDown })
	}
	p.settle(t)
}
