// Package tr writes the line protocol shared by all correspondence drivers:
//
//	case <n> <free text>
//	<op words> => <implementation observation>
//
// plus free-form "# ..." comment lines.  One PRNG (seeded from VERIF_SEED)
// feeds every random choice of a driver.
package tr

import (
	"bufio"
	"fmt"
	"math/rand"
	"os"
	"sort"
	"strconv"
	"strings"
)

type W struct {
	w     *bufio.Writer
	f     *os.File
	Cases int
	Ops   int
	Stats map[string]int
	hangs int
}

func New(path string) *W {
	f, err := os.Create(path)
	if err != nil {
		panic(err)
	}
	return &W{w: bufio.NewWriterSize(f, 1<<20), f: f, Stats: map[string]int{}}
}

func (t *W) Case(format string, a ...any) {
	t.Cases++
	fmt.Fprintf(t.w, "case %d %s\n", t.Cases, fmt.Sprintf(format, a...))
}

func (t *W) Op(op, obs string) {
	t.Ops++
	fmt.Fprintf(t.w, "%s => %s\n", op, obs)
	// Every HANG costs a watchdog period: once the implementation has hung a
	// few times the verdict is settled, stop instead of running for an hour.
	if strings.HasPrefix(obs, "HANG") || strings.Contains(obs, " HANG") {
		t.hangs++
		if MaxHangs > 0 && t.hangs >= MaxHangs {
			fmt.Fprintf(t.w, "# aborted after %d HANG observations\n", t.hangs)
			t.Close()
			os.Exit(0)
		}
	}
}

// MaxHangs is the number of HANG observations after which a driver stops
// (0 = never).  Drivers for which a HANG is never expected on a correct tree
// set it; drivers that probe known hangs do not.
var MaxHangs = 0

func (t *W) Line(format string, a ...any) {
	fmt.Fprintf(t.w, format+"\n", a...)
}

func (t *W) Hit(k string) { t.Stats[k]++ }

func (t *W) Close() {
	keys := make([]string, 0, len(t.Stats))
	for k := range t.Stats {
		keys = append(keys, k)
	}
	sort.Strings(keys)
	for _, k := range keys {
		fmt.Fprintf(t.w, "# stat %s %d\n", k, t.Stats[k])
	}
	t.w.Flush()
	t.f.Close()
}

func Seed() int64 {
	s, err := strconv.ParseInt(os.Getenv("VERIF_SEED"), 10, 64)
	if err != nil {
		return 1
	}
	return s
}

func Rng(salt int64) *rand.Rand { return rand.New(rand.NewSource(Seed()*1000003 + salt)) }

func Join[T any](xs []T, f func(T) string) string {
	ss := make([]string, len(xs))
	for i, x := range xs {
		ss[i] = f(x)
	}
	return "[" + strings.Join(ss, " ") + "]"
}

func EnvInt(name string, def int) int {
	if v, err := strconv.Atoi(os.Getenv(name)); err == nil {
		return v
	}
	return def
}
