package tr

// Driver is a correspondence driver: it runs the real code and writes the trace.
type Driver func(t *W, thorough bool)

var Drivers = map[string]Driver{}

func Register(name string, d Driver) { Drivers[name] = d }
