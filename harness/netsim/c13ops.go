package netsim

// C13 at the ChainService level: IsBanned / BanPeer / UnbanPeer called with
// many spellings of the same IP address in every order (query before ban
// included), and the connection path (a persistent peer's reconnect goes
// through outboundPeerConnected -> IsBanned) after a ban under another spelling.
//
// Case header `c13s <name> ...`; lines (see lean/Driver/Drv/Net.lean):
//   peer <i> <kind>            => addr <ip> <port>
//   peerip <i>                 => <iphex>                 16-byte form of the peer's IP
//   isbanned <iphex> <text>    => 0 | 1                   ChainService.IsBanned(text)
//   ban <iphex> <text>         => ok | err                ChainService.BanPeer(text, reason)
//   unban <iphex> <text>       => ok | err                ChainService.UnbanPeer(text, false)
//   redial <i>                 => sessions <n>            the connection manager dialled peer i again
//   after                      => <sample observation>
// <iphex> is net.ParseIP of the host part (what banman.ParseIPNet looks at), `-` if it does not parse.

import (
	"encoding/hex"
	"fmt"
	"math/rand"
	"net"
	"sync/atomic"
	"time"

	"github.com/lightninglabs/neutrino/banman"
	"verifharness/tr"
)

func ipHexOf(text string) string {
	host, _, err := net.SplitHostPort(text)
	if err != nil {
		host = text
	}
	ip := net.ParseIP(host)
	if ip == nil {
		return "-"
	}
	return hex.EncodeToString(ip.To16())
}

// spellingsOf: six address strings that all denote the IP address ip (IPv4
// dotted, or IPv6 in its canonical text form, zone-less).
func spellingsOf(ip string) []string {
	p := net.ParseIP(ip)
	if p.To4() != nil {
		return []string{
			ip + ":18444", ip + ":18445", ip, "[::ffff:" + ip + "]:18444", "::ffff:" + ip, "[::ffff:" + ip + "]:9",
		}
	}
	g := make([]any, 8)
	for i := range g {
		g[i] = int(p[2*i])<<8 | int(p[2*i+1])
	}
	loose := fmt.Sprintf("%x:%x:%x:%x:%x:%x:%x:%x", g...)
	full := fmt.Sprintf("%04X:%04X:%04X:%04X:%04X:%04X:%04X:%04X", g...)
	return []string{
		"[" + ip + "]:18444", "[" + ip + "]:18445", ip, "[" + loose + "]:18444", full, "[" + full + "]:9",
	}
}

type csOps struct {
	t *tr.W
	s *Sim
}

func timedStr(f func() string) string {
	ch := make(chan string, 1)
	go func() { ch <- f() }()
	select {
	case r := <-ch:
		return r
	case <-time.After(5 * time.Second):
		return "HANG"
	}
}

func (c csOps) isBanned(text string) bool {
	r := timedStr(func() string {
		if c.s.CS.IsBanned(text) {
			return "1"
		}
		return "0"
	})
	c.t.Op(fmt.Sprintf("isbanned %s %s", ipHexOf(text), text), r)
	c.t.Hit("c13s.isbanned." + r)
	return r == "1"
}

func (c csOps) ban(text string) {
	r := timedStr(func() string {
		if err := c.s.CS.BanPeer(text, banman.ExceededBanThreshold); err != nil {
			return "err"
		}
		return "ok"
	})
	c.t.Op(fmt.Sprintf("ban %s %s", ipHexOf(text), text), r)
	c.t.Hit("c13s.ban")
}

func (c csOps) unban(text string) {
	r := timedStr(func() string {
		// the store call comes first; the ConnectNode that follows may fail (no such node): not our concern
		if err := c.s.CS.UnbanPeer(text, false); err != nil {
			return "err"
		}
		return "ok"
	})
	c.t.Op(fmt.Sprintf("unban %s %s", ipHexOf(text), text), r)
	c.t.Hit("c13s.unban")
}

func (c csOps) peerIPs() {
	for i, p := range c.s.Peers {
		c.t.Op(fmt.Sprintf("peerip %d", i), ipHexOf(p.Addr))
	}
}

func startC13s(t *tr.W, rng *rand.Rand, name string, addrs []string) (*Sim, bool) {
	l := 12 + rng.Intn(8)
	peers := make([]Behaviour, len(addrs))
	for i := range peers {
		peers[i] = honest()
	}
	sc := Scenario{Name: name, Len: l, Peers: peers, Addrs: addrs, Barrier: true}
	t.Case("c13s %s len %d npeers %d", name, l, len(peers))
	s, err := New(sc, rng, t.Op)
	if err != nil {
		t.Line("# setup error: %s", sanitize(err.Error()))
		t.Op("setup", "err")
		return nil, false
	}
	peerLines(t, s)
	csOps{t, s}.peerIPs()
	if err := s.Start(); err != nil {
		t.Line("# start error: %s", sanitize(err.Error()))
		t.Op("start", "err")
		s.Cleanup()
		return nil, false
	}
	ok := s.waitFor(6*time.Second, func(o Obs) bool { return s.converged(o) && len(o.Conn) == len(s.Peers) })
	t.Op("waitsync", map[bool]string{true: "ok", false: "timeout"}[ok])
	return s, true
}

func driveC13Spellings(t *tr.W, rng *rand.Rand) {
	// ---- 1. every order of query / ban / unban over the spellings of addresses nobody is connected to
	if s, ok := startC13s(t, rng, "orders", []string{"10.0.0.5:18444"}); ok {
		c := csOps{t, s}
		for j := 0; j < 6; j++ {
			// IPv4, IPv6 global, IPv6 link-local (zone-less); ...:3 and ...:6 share a /64 with nothing banned
			ip := []string{"10.0.8.1", "2001:db8::8:2", "10.0.8.3", "fe80::8:4", "10.0.8.5", "2001:db8:0:0:1::6"}[j]
			sp := spellingsOf(ip)
			all := func() {
				for _, x := range sp {
					c.isBanned(x)
				}
			}
			if j%2 == 0 {
				all() // query before ban: every spelling has been answered "not banned" once
			}
			c.ban(sp[j])
			all()
			c.unban(sp[(j+2)%len(sp)])
			all()
			c.ban(sp[(j+3)%len(sp)])
			all()
		}
		// random interleaving over two addresses
		// two of them are neighbours in one /64: a ban of one is not a ban of the other
		ips := []string{"10.0.9.1", "2001:db8::9:2", "2001:db8::9:3", "fe80::9"}
		for i := 0; i < 120; i++ {
			sp := spellingsOf(ips[rng.Intn(len(ips))])
			x := sp[rng.Intn(len(sp))]
			switch p := rng.Intn(10); {
			case p < 6:
				c.isBanned(x)
			case p < 9:
				c.ban(x)
			default:
				c.unban(x)
			}
		}
		for _, bad := range []string{"", "not-an-ip", "[::1]"} {
			c.isBanned(bad)
		}
		t.Op("after", s.Observe().String())
		stopLine(t, s, "orders")
		s.Cleanup()
	}

	// ---- 2. the connection path: each connected (persistent) peer's IP is banned under ANOTHER spelling; the
	// peer is dropped, the connection manager dials it again after ConnectionRetryInterval and
	// outboundPeerConnected must turn it away
	addrs := []string{"10.0.0.5:18444", "10.0.0.6:18444", "10.0.0.7:18444", "10.0.0.8:18444",
		"[2001:db8::7]:18444", "[2001:db8::8]:18444", "[fe80::7]:18444"}
	// peers 3 and 5 are not banned (5 is a /64 neighbour of the banned 4)
	other := []string{"10.0.0.5:18445", "[::ffff:10.0.0.6]:18444", "10.0.0.7", "",
		"[2001:db8:0:0:0:0:0:7]:18445", "", "fe80::7"}
	nBanned := 0
	for _, o := range other {
		if o != "" {
			nBanned++
		}
	}
	if s, ok := startC13s(t, rng, "reconnect", addrs); ok {
		c := csOps{t, s}
		before := make([]int32, len(s.Peers))
		for i, p := range s.Peers {
			c.isBanned(p.Addr) // the check made when the connection came up, once more
			before[i] = atomic.LoadInt32(&p.Sessions)
		}
		for _, o := range other {
			if o != "" {
				c.ban(o)
			}
		}
		// the banned peers are dropped ...
		s.waitFor(1500*time.Millisecond, func(o Obs) bool { return len(o.Conn) == len(s.Peers)-nBanned })
		// ... and dialled again (ConnectionRetryInterval = 2 s in the simulation)
		dl := time.Now().Add(4 * time.Second)
		for time.Now().Before(dl) {
			n := 0
			for i, p := range s.Peers {
				if other[i] != "" && atomic.LoadInt32(&p.Sessions) > before[i] {
					n++
				}
			}
			if n == nBanned {
				break
			}
			time.Sleep(20 * time.Millisecond)
		}
		s.waitFor(400*time.Millisecond, func(Obs) bool { return false })
		for i, p := range s.Peers {
			t.Op(fmt.Sprintf("redial %d", i), fmt.Sprintf("sessions %d", atomic.LoadInt32(&p.Sessions)-before[i]))
			c.isBanned(p.Addr)
		}
		t.Op("after", s.Observe().String())
		t.Hit("c13s.reconnect")
		stopLine(t, s, "reconnect")
		s.Cleanup()
	}
}
