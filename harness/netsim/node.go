package netsim

import (
	"bytes"
	"fmt"
	"io"
	"net"
	"os"
	"strings"
	"sync"
	"sync/atomic"
	"time"

	"github.com/btcsuite/btcd/btcutil/v2/gcs/builder"
	"github.com/btcsuite/btcd/chainhash/v2"
	"github.com/btcsuite/btcd/wire/v2"
)

// Behaviour of one scripted full node.
type Behaviour struct {
	Kind    string // honest liarHeaders lighterFork liarCFHeaders liarCFCheckpt liarCFilter silent emptyHeaders noServices disconnectAt garbage noCF noCFilters
	H       int    // height of the lie / checkpoint index / message count before the disconnect / fork depth
	N       int    // lighterFork: branch length
	Variant string // liarHeaders: pow|unlinked ; noServices: cf|witness ; liarCFHeaders: inconsistent|consistent ; liarCFCheckpt: only|consistent
	SkewMin int    // minutes this node's clock is ahead (timestamp of its version message)
	Tx      string // reaction to a transaction inv: "" (ignore) | accept | reject-nogetdata | reject | confirm-after-release | reject-with
	// reject-with: ask for the transaction, then reject it with this code and reason (%TX% = its id)
	RejCode   wire.RejectCode
	RejReason string
	// GD = "flip": the getdata this peer answers a transaction inv with names the OTHER tx inv type
	// (InvTypeTx for an announced InvTypeWitnessTx and vice versa), as a peer without witness
	// support or with another encoding preference does; it still asks for the same transaction.
	GD string
}

func (b Behaviour) String() string {
	s := b.Kind
	switch b.Kind {
	case "liarHeaders":
		s += fmt.Sprintf(" %d %s", b.H, b.Variant)
	case "lighterFork":
		s += fmt.Sprintf(" %d %d", b.H, b.N)
	case "lagging":
		s += fmt.Sprintf(" %d", b.H)
	case "liarCFHeaders":
		s += fmt.Sprintf(" %d %s", b.H, b.Variant)
	case "liarCFCheckpt":
		s += fmt.Sprintf(" %d %s", b.H, b.Variant)
	case "liarCFilter", "disconnectAt":
		s += fmt.Sprintf(" %d", b.H)
	case "noServices":
		s += " " + b.Variant
	}
	if b.Tx != "" {
		s += " tx=" + b.Tx
	}
	if b.GD != "" {
		s += " gd=" + b.GD
	}
	if b.SkewMin != 0 {
		s += fmt.Sprintf(" skew=%d", b.SkewMin)
	}
	return s
}

// Honestish: serves the true best chain for block headers.
func (b Behaviour) followsHonest() bool {
	switch b.Kind {
	case "lighterFork", "liarHeaders", "lagging":
		return false
	}
	return true
}

// Peer is one scripted full node; it may be dialled several times (the
// connection manager retries persistent peers).
type Peer struct {
	Idx  int
	Addr string
	B    Behaviour
	w    *World

	mu          sync.Mutex
	own         *Blk // tip of this peer's own branch (lighterFork / liarHeaders)
	cur         *session
	Sessions    int32
	fakeHash    map[int32]chainhash.Hash
	lastLocator []chainhash.Hash     // block locator of the most recent getheaders
	AfterWrite  func(m wire.Message) // called by the connection's writer right after a message went out
	Release     chan struct{}        // confirm-after-release: closed by the scenario when the late answers may flow

	// counters (atomic)
	GotGetHeaders, GotGetCFHeaders, GotGetCFCheckpt, GotGetCFilters, GotGetData, GotInvTx, GotTx int32
	flooding                                                                                     int32
	Handshakes                                                                                   int32
	sentTotal                                                                                    int32
	didDisconnect                                                                                int32
	Lied                                                                                         int32           // served at least one false message
	barrier                                                                                      <-chan struct{} // when set: the first headers reply waits for it

	// HoldGate, when set, makes the peer sit on the client's version message: it answers with its own
	// version / verack only once the gate is closed (Held is 1 while a session waits there).
	HoldGate chan struct{}
	Held     int32
	// Stalled counts the sessions in which this peer sent its version and then withheld its verack / hung up
	Stalled int32
}

type session struct {
	p      *Peer
	conn   net.Conn
	mu     sync.Mutex
	cond   *sync.Cond
	q      []wire.Message
	raw    [][]byte
	closed bool
	done   chan struct{}
	ready  chan struct{} // closed after the handshake
}

// tip this peer claims right now
func (p *Peer) tip() *Blk {
	if p.B.followsHonest() {
		return p.w.Honest()
	}
	p.mu.Lock()
	defer p.mu.Unlock()
	return p.own
}

func (p *Peer) services() wire.ServiceFlag {
	s := wire.SFNodeNetwork | wire.SFNodeWitness | wire.SFNodeCF
	if p.B.Kind == "noServices" {
		if strings.HasPrefix(p.B.Variant, "witness") {
			s &^= wire.SFNodeWitness
		} else {
			s &^= wire.SFNodeCF
		}
	}
	return s
}

func (p *Peer) startHeight() int32 {
	switch p.B.Kind {
	case "silent", "emptyHeaders":
		return 1 << 20
	case "liarHeaders":
		return p.w.Honest().Height + 5
	}
	return p.tip().Height
}

// Serve runs one connection (blocking until it ends).
func (p *Peer) Serve(conn net.Conn) {
	s := &session{p: p, conn: conn, done: make(chan struct{}), ready: make(chan struct{})}
	s.cond = sync.NewCond(&s.mu)
	atomic.AddInt32(&p.Sessions, 1)
	p.mu.Lock()
	p.cur = s
	p.mu.Unlock()
	defer func() {
		s.close()
		p.mu.Lock()
		if p.cur == s {
			p.cur = nil
		}
		p.mu.Unlock()
	}()
	net := p.w.Params.Net
	pver := wire.ProtocolVersion
	// handshake: the client (outbound) speaks first
	conn.SetDeadline(time.Now().Add(5 * time.Second))
	_, m, _, err := wire.ReadMessageWithEncodingN(conn, pver, net, wire.WitnessEncoding)
	if err != nil {
		return
	}
	theirs, ok := m.(*wire.MsgVersion)
	if !ok {
		return
	}
	if p.HoldGate != nil {
		atomic.StoreInt32(&p.Held, 1)
		select {
		case <-p.HoldGate:
		case <-s.done:
			return
		case <-time.After(20 * time.Second):
			return
		}
		atomic.StoreInt32(&p.Held, 0)
		conn.SetDeadline(time.Now().Add(5 * time.Second))
	}
	me := wire.NewNetAddressIPPort([]byte{127, 0, 0, 1}, 18444, p.services())
	ver := wire.NewMsgVersion(me, &theirs.AddrMe, uint64(0x1000+p.Idx)<<20|uint64(atomic.LoadInt32(&p.Sessions)), p.startHeight())
	ver.Services = p.services()
	ver.ProtocolVersion = int32(pver)
	ver.UserAgent = fmt.Sprintf("/netsim:%d/", p.Idx)
	if p.B.SkewMin != 0 {
		// this node's clock is off: the client takes the timestamp of the version
		// message as a sample for its network-adjusted time
		ver.Timestamp = time.Unix(time.Now().Add(time.Duration(p.B.SkewMin)*time.Minute).Unix(), 0)
	}
	if _, err := wire.WriteMessageWithEncodingN(conn, ver, pver, net, wire.WitnessEncoding); err != nil {
		return
	}
	// the pipe is unbuffered: from here on all writes go through the queue so
	// that reading the client's sendaddrv2/verack never waits for our verack
	go s.writer(pver, net)
	if p.B.Kind == "noServices" && strings.HasSuffix(p.B.Variant, "-noverack") {
		// the peer has announced its services (version) and never acknowledges ours: the handshake stays
		// incomplete; it keeps reading whatever it is sent (requests are counted) until the client hangs up
		atomic.AddInt32(&p.Stalled, 1)
		conn.SetDeadline(time.Now().Add(8 * time.Second))
		for {
			_, m, _, err := wire.ReadMessageWithEncodingN(conn, pver, net, wire.WitnessEncoding)
			if err != nil {
				if err == wire.ErrUnknownMessage {
					continue
				}
				return
			}
			switch m.(type) {
			case *wire.MsgGetHeaders:
				atomic.AddInt32(&p.GotGetHeaders, 1)
			case *wire.MsgGetCFCheckpt:
				atomic.AddInt32(&p.GotGetCFCheckpt, 1)
			case *wire.MsgGetCFHeaders:
				atomic.AddInt32(&p.GotGetCFHeaders, 1)
			case *wire.MsgGetCFilters:
				atomic.AddInt32(&p.GotGetCFilters, 1)
			case *wire.MsgGetData:
				atomic.AddInt32(&p.GotGetData, 1)
			}
		}
	}
	s.send(wire.NewMsgVerAck())
	for {
		_, m, _, err := wire.ReadMessageWithEncodingN(conn, pver, net, wire.WitnessEncoding)
		if err != nil {
			return
		}
		if _, ok := m.(*wire.MsgVerAck); ok {
			break
		}
	}
	conn.SetDeadline(time.Time{})
	atomic.AddInt32(&p.Handshakes, 1)
	if p.B.Kind == "noServices" && strings.HasSuffix(p.B.Variant, "-hangup") {
		// handshake complete on the wire; the peer hangs up before the client's peer handler gets to it
		atomic.AddInt32(&p.Stalled, 1)
		time.Sleep(time.Millisecond)
		return
	}
	close(s.ready)
	for {
		_, m, _, err := wire.ReadMessageWithEncodingN(conn, pver, net, wire.WitnessEncoding)
		if err != nil {
			if err == wire.ErrUnknownMessage {
				continue
			}
			return
		}
		s.handle(m)
		if p.B.Kind == "disconnectAt" && atomic.LoadInt32(&p.sentTotal) >= int32(p.B.H) &&
			atomic.CompareAndSwapInt32(&p.didDisconnect, 0, 1) {
			// let the writer flush what is queued, then drop the connection
			time.Sleep(5 * time.Millisecond)
			return
		}
	}
}

func (s *session) close() {
	s.mu.Lock()
	if !s.closed {
		s.closed = true
		close(s.done)
		s.conn.Close()
	}
	s.cond.Broadcast()
	s.mu.Unlock()
}

func (s *session) send(m wire.Message) {
	s.mu.Lock()
	if !s.closed {
		s.q = append(s.q, m)
		s.raw = append(s.raw, nil)
		atomic.AddInt32(&s.p.sentTotal, 1)
	}
	s.cond.Signal()
	s.mu.Unlock()
}

func (s *session) sendRaw(b []byte) {
	s.mu.Lock()
	if !s.closed {
		s.q = append(s.q, nil)
		s.raw = append(s.raw, b)
	}
	s.cond.Signal()
	s.mu.Unlock()
}

// writer drains the unbounded queue so that the reader never blocks on the
// (unbuffered) pipe.
func (s *session) writer(pver uint32, net wire.BitcoinNet) {
	for {
		s.mu.Lock()
		for len(s.q) == 0 && !s.closed {
			s.cond.Wait()
		}
		if s.closed {
			s.mu.Unlock()
			return
		}
		m, raw := s.q[0], s.raw[0]
		s.q, s.raw = s.q[1:], s.raw[1:]
		s.mu.Unlock()
		var err error
		if m != nil {
			_, err = wire.WriteMessageWithEncodingN(s.conn, m, pver, net, wire.WitnessEncoding)
		} else {
			_, err = s.conn.Write(raw)
		}
		if err != nil {
			s.close()
			return
		}
		if m != nil && s.p.AfterWrite != nil {
			s.p.AfterWrite(m)
		}
	}
}

// Announce tells the client about this peer's current tip (if connected).
func (p *Peer) Announce() {
	if p.B.Kind == "silent" || p.B.Kind == "emptyHeaders" {
		return
	}
	p.mu.Lock()
	s := p.cur
	p.mu.Unlock()
	if s == nil {
		return
	}
	select {
	case <-s.ready:
	default:
		return
	}
	t := p.tip()
	inv := wire.NewMsgInv()
	inv.AddInvVect(wire.NewInvVect(wire.InvTypeBlock, &t.Hash))
	s.send(inv)
}

// Inject queues an arbitrary message on the live connection.
func (p *Peer) Inject(m wire.Message) bool {
	p.mu.Lock()
	s := p.cur
	p.mu.Unlock()
	if s == nil {
		return false
	}
	s.send(m)
	return true
}

// NewScriptedPeer builds a scripted full node outside a Sim (component drivers
// that wire a real peer.Peer to it over a pipe).  own is the tip of the chain
// it serves when its behaviour does not follow the honest tip (lighterFork,
// lagging, liarHeaders); nil otherwise.
func NewScriptedPeer(w *World, idx int, addr string, b Behaviour, own *Blk) *Peer {
	return &Peer{Idx: idx, Addr: addr, B: b, w: w, own: own, Release: make(chan struct{})}
}

// LastLocator: the block locator of the most recent getheaders this peer received.
func (p *Peer) LastLocator() []chainhash.Hash {
	p.mu.Lock()
	defer p.mu.Unlock()
	return append([]chainhash.Hash(nil), p.lastLocator...)
}

// Drop closes the live connection from the node's side.
func (p *Peer) Drop() {
	p.mu.Lock()
	s := p.cur
	p.mu.Unlock()
	if s != nil {
		s.close()
	}
}

// live: a connection (handshaken or not) is currently being served
func (p *Peer) live() bool {
	p.mu.Lock()
	defer p.mu.Unlock()
	return p.cur != nil
}

// Connected reports whether a handshaken connection is live.
func (p *Peer) Connected() bool {
	p.mu.Lock()
	s := p.cur
	p.mu.Unlock()
	if s == nil {
		return false
	}
	select {
	case <-s.ready:
		select {
		case <-s.done:
			return false
		default:
			return true
		}
	default:
		return false
	}
}

func (p *Peer) fake(h int32) chainhash.Hash {
	p.mu.Lock()
	defer p.mu.Unlock()
	if p.fakeHash == nil {
		p.fakeHash = map[int32]chainhash.Hash{}
	}
	if v, ok := p.fakeHash[h]; ok {
		return v
	}
	v := chainhash.DoubleHashH([]byte(fmt.Sprintf("fake %d %d", p.Idx, h)))
	p.fakeHash[h] = v
	return v
}

// onMyChain: the block with this hash if it is on the chain this peer serves.
func (p *Peer) onMyChain(h chainhash.Hash, tip *Blk) *Blk {
	b := p.w.Lookup(h)
	if b == nil || tip.Ancestor(b.Height) != b {
		return nil
	}
	return b
}

func (s *session) handle(m wire.Message) {
	p := s.p
	if p.B.Kind == "silent" {
		return
	}
	if p.B.Kind == "garbage" {
		s.garbage()
	}
	switch msg := m.(type) {
	case *wire.MsgPing:
		s.send(wire.NewMsgPong(msg.Nonce))

	case *wire.MsgGetHeaders:
		if atomic.LoadInt32(&p.flooding) != 0 {
			return // it does not answer the requests its junk announcements provoke
		}
		p.mu.Lock()
		p.lastLocator = nil
		for _, h := range msg.BlockLocatorHashes {
			p.lastLocator = append(p.lastLocator, *h)
		}
		p.mu.Unlock()
		atomic.AddInt32(&p.GotGetHeaders, 1)
		if p.barrier != nil {
			select {
			case <-p.barrier:
			case <-s.done:
				return
			case <-time.After(5 * time.Second):
			}
		}
		if p.B.Kind == "emptyHeaders" {
			// claims a huge height but never has a header to give
			atomic.StoreInt32(&p.Lied, 1)
			s.send(wire.NewMsgHeaders())
			return
		}
		tip := p.tip()
		start := int32(1)
		for _, h := range msg.BlockLocatorHashes {
			if b := p.onMyChain(*h, tip); b != nil {
				start = b.Height + 1
				break
			}
		}
		path := tip.Path()
		out := wire.NewMsgHeaders()
		for h := start; h <= tip.Height && len(out.Headers) < wire.MaxBlockHeadersPerMsg; h++ {
			hdr := path[h].Msg.Header
			out.AddBlockHeader(&hdr)
			if !path[h].Valid {
				atomic.StoreInt32(&p.Lied, 1)
			}
			if path[h].Hash == msg.HashStop {
				break
			}
		}
		s.send(out)

	case *wire.MsgGetCFCheckpt:
		atomic.AddInt32(&p.GotGetCFCheckpt, 1)
		if p.B.Kind == "noCF" {
			return
		}
		tip := p.tip()
		stop := p.onMyChain(msg.StopHash, tip)
		if stop == nil || !stop.Valid {
			return
		}
		out := wire.NewMsgCFCheckpt(msg.FilterType, &msg.StopHash, int(stop.Height/wire.CFCheckptInterval))
		path := stop.Path()
		for i := int32(1); i*wire.CFCheckptInterval <= stop.Height; i++ {
			fh := p.fheader(path, i*wire.CFCheckptInterval)
			if p.B.Kind == "liarCFCheckpt" && p.B.Variant == "only" && int(i-1) == p.B.H {
				fh = p.fake(-i)
			}
			if fh != path[i*wire.CFCheckptInterval].FHeader {
				atomic.StoreInt32(&p.Lied, 1)
			}
			out.AddCFHeader(&fh)
		}
		s.send(out)

	case *wire.MsgGetCFHeaders:
		atomic.AddInt32(&p.GotGetCFHeaders, 1)
		if p.B.Kind == "noCF" {
			return
		}
		tip := p.tip()
		stop := p.onMyChain(msg.StopHash, tip)
		// like btcd: no answer when the range is empty or exceeds one message
		if stop == nil || !stop.Valid || int32(msg.StartHeight) > stop.Height ||
			stop.Height-int32(msg.StartHeight)+1 > wire.MaxCFHeadersPerMsg {
			return
		}
		path := stop.Path()
		out := wire.NewMsgCFHeaders()
		out.FilterType = msg.FilterType
		out.StopHash = msg.StopHash
		if msg.StartHeight > 0 {
			out.PrevFilterHeader = p.fheader(path, int32(msg.StartHeight)-1)
		}
		for h := int32(msg.StartHeight); h <= stop.Height && len(out.FilterHashes) < wire.MaxCFHeadersPerMsg; h++ {
			fh := path[h].FHash
			if (p.B.Kind == "liarCFHeaders" && int(h) == p.B.H) || h == p.cpLieHeight() {
				fh = p.lieFilterHash(path[h])
				atomic.StoreInt32(&p.Lied, 1)
			}
			out.AddCFHash(&fh)
		}
		s.send(out)

	case *wire.MsgGetCFilters:
		atomic.AddInt32(&p.GotGetCFilters, 1)
		if p.B.Kind == "noCF" || p.B.Kind == "noCFilters" {
			return
		}
		tip := p.tip()
		stop := p.onMyChain(msg.StopHash, tip)
		if stop == nil || !stop.Valid || int32(msg.StartHeight) > stop.Height ||
			stop.Height-int32(msg.StartHeight)+1 > wire.MaxGetCFiltersReqRange {
			if os.Getenv("NETSIM_DEBUG") != "" {
				fmt.Fprintf(os.Stderr, "peer %d declines getcfilters start %d stop %v (known %v)\n", p.Idx, msg.StartHeight, msg.StopHash, stop != nil)
				if stop != nil {
					fmt.Fprintf(os.Stderr, "   stop height %d\n", stop.Height)
				}
			}
			return
		}
		path := stop.Path()
		for h := int32(msg.StartHeight); h <= stop.Height; h++ {
			data := path[h].FBytes
			if (p.B.Kind == "liarCFilter" && int(h) == p.B.H) ||
				(p.B.Kind == "liarCFHeaders" && p.B.Variant == "consistent" && int(h) == p.B.H) {
				data = p.lieFilter(path[h])
				atomic.StoreInt32(&p.Lied, 1)
			}
			s.send(wire.NewMsgCFilter(msg.FilterType, &path[h].Hash, data))
		}

	case *wire.MsgGetData:
		atomic.AddInt32(&p.GotGetData, 1)
		nf := wire.NewMsgNotFound()
		for _, iv := range msg.InvList {
			switch iv.Type {
			case wire.InvTypeBlock, wire.InvTypeWitnessBlock:
				if b := p.w.Lookup(iv.Hash); b != nil && b.Valid && b.Height > 0 {
					s.send(b.Msg)
					continue
				}
				nf.AddInvVect(iv)
			case wire.InvTypeTx, wire.InvTypeWitnessTx:
				// the client answers its own getdata with the tx; nothing to serve
				nf.AddInvVect(iv)
			default:
				nf.AddInvVect(iv)
			}
		}
		if len(nf.InvList) > 0 {
			s.send(nf)
		}

	case *wire.MsgInv:
		for _, iv := range msg.InvList {
			if iv.Type != wire.InvTypeTx && iv.Type != wire.InvTypeWitnessTx {
				continue
			}
			atomic.AddInt32(&p.GotInvTx, 1)
			if p.B.GD == "flip" {
				other := *iv
				if iv.Type == wire.InvTypeTx {
					other.Type = wire.InvTypeWitnessTx
				} else {
					other.Type = wire.InvTypeTx
				}
				iv = &other
			}
			switch p.B.Tx {
			case "accept":
				gd := wire.NewMsgGetData()
				gd.AddInvVect(iv)
				s.send(gd)
			case "reject-nogetdata":
				rj := wire.NewMsgReject(wire.CmdTx, wire.RejectInsufficientFee, "insufficient fee")
				rj.Hash = iv.Hash
				s.send(rj)
			case "reject", "reject-with":
				gd := wire.NewMsgGetData()
				gd.AddInvVect(iv)
				s.send(gd)
			case "confirm-after-release":
				// first announcement: ask for the transaction and accept it silently;
				// later announcements (rebroadcasts): answer only once released, then
				// say the transaction is already in the chain
				gd := wire.NewMsgGetData()
				gd.AddInvVect(iv)
				if atomic.LoadInt32(&p.GotInvTx) == 1 {
					s.send(gd)
					continue
				}
				go func() {
					select {
					case <-p.Release:
					case <-s.done:
						return
					case <-time.After(5 * time.Second):
						return
					}
					s.send(gd)
				}()
			}
		}

	case *wire.MsgTx:
		if n := atomic.AddInt32(&p.GotTx, 1); p.B.Tx == "confirm-after-release" && n > 1 {
			rj := wire.NewMsgReject(wire.CmdTx, wire.RejectDuplicate, "transaction already exists")
			rj.Hash = msg.TxHash()
			s.send(rj)
		}
		if p.B.Tx == "reject-with" {
			h := msg.TxHash()
			rj := wire.NewMsgReject(wire.CmdTx, p.B.RejCode, strings.ReplaceAll(p.B.RejReason, "%TX%", h.String()))
			rj.Hash = h
			s.send(rj)
		}
		if p.B.Tx == "reject" {
			rj := wire.NewMsgReject(wire.CmdTx, wire.RejectInvalid, "bad-txns-inputs-missingorspent")
			rj.Hash = msg.TxHash()
			s.send(rj)
		}
	}
}

// cpLieHeight: a "consistent" checkpoint liar also lies about the filter hash
// of the checkpointed block itself, so that its checkpoints, filter headers and
// filter hashes agree with each other (-1: none).
func (p *Peer) cpLieHeight() int32 {
	if p.B.Kind == "liarCFCheckpt" && p.B.Variant == "consistent" {
		return int32(p.B.H+1) * wire.CFCheckptInterval
	}
	return -1
}

// fheader: the filter header this peer claims for height h of path (the true
// one, except above a consistent checkpoint liar's false filter hash).
func (p *Peer) fheader(path []*Blk, h int32) chainhash.Hash {
	l := p.cpLieHeight()
	if l < 0 || h < l || int(l) >= len(path) {
		return path[h].FHeader
	}
	prev := path[l-1].FHeader
	for k := l; k <= h; k++ {
		fh := path[k].FHash
		if k == l {
			fh = p.lieFilterHash(path[k])
		}
		prev = chainhash.DoubleHashH(append(fh[:], prev[:]...))
	}
	return prev
}

// lieFilterHash: the false filter hash this peer commits to at block b.
func (p *Peer) lieFilterHash(b *Blk) chainhash.Hash {
	if p.B.Variant == "consistent" {
		f, err := builder.BuildBasicFilter(&wire.MsgBlock{Header: b.Msg.Header}, nil)
		if err != nil {
			panic(err)
		}
		h, _ := builder.GetFilterHash(f)
		return h
	}
	return p.fake(b.Height)
}

// lieFilter: a well-formed filter for block b that lacks the block's scripts.
func (p *Peer) lieFilter(b *Blk) []byte {
	f, err := builder.BuildBasicFilter(&wire.MsgBlock{Header: b.Msg.Header}, nil)
	if err != nil {
		panic(err)
	}
	data, _ := f.NBytes()
	return data
}

// garbage: unsolicited, unknown and irrelevant messages in front of every
// answer.  None of them is a protocol violation the peer library punishes.
func (s *session) garbage() {
	p := s.p
	n := atomic.AddInt32(&p.sentTotal, 0)
	switch n % 6 {
	case 0:
		// unknown command with a valid frame
		var buf bytes.Buffer
		hdr := make([]byte, 24)
		copy(hdr[0:4], le32(uint32(p.w.Params.Net)))
		copy(hdr[4:16], []byte("netsimjunk"))
		payload := []byte("hello")
		copy(hdr[16:20], le32(uint32(len(payload))))
		copy(hdr[20:24], chainhash.DoubleHashB(payload)[:4])
		buf.Write(hdr)
		buf.Write(payload)
		s.sendRaw(buf.Bytes())
	case 1:
		s.send(wire.NewMsgHeaders()) // empty, unsolicited
	case 2:
		s.send(wire.NewMsgPong(uint64(n) * 7919))
	case 3:
		// unsolicited cfheaders for a block the client never asked about
		m := wire.NewMsgCFHeaders()
		m.StopHash = p.fake(int32(n))
		fh := p.fake(int32(n) + 1)
		m.AddCFHash(&fh)
		s.send(m)
	case 4:
		nf := wire.NewMsgNotFound()
		h := p.fake(int32(n))
		nf.AddInvVect(wire.NewInvVect(wire.InvTypeBlock, &h))
		s.send(nf)
	case 5:
		// unsolicited cfilter with junk data
		h := p.fake(int32(n))
		s.send(wire.NewMsgCFilter(wire.GCSFilterRegular, &h, []byte{1, 2, 3}))
	}
}

var _ = io.EOF

// Flood queues n block announcements for hashes nobody knows, one inv message
// each, on the live connection (a misbehaving or broken peer; also what a
// hundred peers announcing at once look like to the block handler's queue).
func (p *Peer) Flood(n int) {
	p.mu.Lock()
	s := p.cur
	p.mu.Unlock()
	if s == nil {
		return
	}
	atomic.StoreInt32(&p.flooding, 1)
	for i := 0; i < n; i++ {
		h := chainhash.DoubleHashH([]byte(fmt.Sprintf("flood %d %d", p.Idx, i)))
		inv := wire.NewMsgInv()
		inv.AddInvVect(wire.NewInvVect(wire.InvTypeBlock, &h))
		s.send(inv)
	}
}

// Backlog is the number of messages still waiting to be written to the client.
func (p *Peer) Backlog() int {
	p.mu.Lock()
	s := p.cur
	p.mu.Unlock()
	if s == nil {
		return 0
	}
	s.mu.Lock()
	defer s.mu.Unlock()
	return len(s.q)
}

// Tip is the tip of the chain this peer serves right now.
func (p *Peer) Tip() *Blk { return p.tip() }
