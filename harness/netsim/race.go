package netsim

// Workload for the race driver (C18): the real client syncs, follows growth and
// a reorganisation of the honest chain and is stopped, while user goroutines
// hammer the public read API.  It is run in a `-race` build of cmd/corr by
// harness/racedrv, which turns every report with a neutrino frame into an
// observation.

import (
	"math/rand"
	"sync"
	"sync/atomic"
	"time"

	"github.com/btcsuite/btcd/btcutil/v2"
	"github.com/btcsuite/btcd/rpcclient"
	"github.com/btcsuite/btcd/wire/v2"
	"github.com/lightninglabs/neutrino"
	"github.com/lightninglabs/neutrino/banman"
	"github.com/lightninglabs/neutrino/headerfs"
)

// RaceWorkload runs the scenarios; everything in it is bounded by deadlines.
func RaceWorkload(seed int64, budget int) {
	// bans made through the public API lapse at once (before any client goroutine exists): every later
	// IsBanned for such an address walks the expiry path of the ban store next to the other lookups
	neutrino.BanDuration = time.Nanosecond
	rng := rand.New(rand.NewSource(seed*7919 + 18))
	grow := func(n int) Event { return Event{Kind: "grow", A: n} }
	sync := Event{Kind: "waitsync"}
	raceScenario(rng, Scenario{Name: "race-sync-2", Len: 120 + rng.Intn(60), Parallel: true, Deadline: 5 * time.Second,
		Peers:  []Behaviour{honest(), honest()},
		Script: []Event{sync, grow(2), sync, {Kind: "reorg", A: 2, B: 3}, sync, grow(1)}})
	raceScenario(rng, Scenario{Name: "race-sync-1", Len: 40 + rng.Intn(30), Deadline: 5 * time.Second,
		Peers:  []Behaviour{honest()},
		Script: []Event{grow(1), sync, {Kind: "reorg", A: 3, B: 4}, grow(1), sync}})
	for i := 1; i < budget; i++ {
		raceScenario(rng, Scenario{Name: "race-sync-more", Len: 80 + rng.Intn(80), Parallel: true, Deadline: 5 * time.Second,
			Peers:  []Behaviour{honest(), honest()},
			Script: []Event{sync, {Kind: "reorg", A: 1, B: 2}, grow(2), sync}})
	}
}

func raceScenario(rng *rand.Rand, sc Scenario) {
	s, err := New(sc, rng, func(string, string) {})
	if err != nil {
		return
	}
	defer s.Cleanup()
	// blocks the user goroutines ask about: part of ground truth from the start
	var known []*Blk
	for h := int32(1); h <= 6 && h <= s.W.Honest().Height; h++ {
		known = append(known, s.W.Honest().Ancestor(h))
	}
	if err := s.Start(); err != nil {
		return
	}
	cs := s.CS
	src := &neutrino.RescanChainSource{ChainService: cs}
	var stop int32
	var wg sync.WaitGroup
	user := func(f func(r *rand.Rand)) {
		wg.Add(1)
		r := rand.New(rand.NewSource(rng.Int63()))
		go func() {
			defer wg.Done()
			for atomic.LoadInt32(&stop) == 0 {
				f(r)
				time.Sleep(time.Duration(200+r.Intn(400)) * time.Microsecond)
			}
		}()
	}
	pick := func(r *rand.Rand) *Blk { return known[r.Intn(len(known))] }
	user(func(*rand.Rand) { cs.IsCurrent() })
	user(func(*rand.Rand) { cs.IsCurrent(); cs.BestBlock() })
	user(func(r *rand.Rand) {
		b := pick(r)
		cs.GetBlockHeader(&b.Hash)
		cs.GetBlockHash(int64(b.Height))
		cs.GetBlockHeight(&b.Hash)
	})
	user(func(*rand.Rand) { cs.Peers(); cs.ConnectedCount() })
	user(func(*rand.Rand) { cs.IsBanned("10.0.0.1:18444") })
	// banning concurrently with ban lookups: addresses no simulated peer uses, bans that have lapsed by the time
	// they are looked up (BanDuration above), several goroutines asking about the same addresses
	banAddr := func(r *rand.Rand) string {
		return []string{"203.0.113.7:8333", "203.0.113.8:8333", "[2001:db8::7]:8333"}[r.Intn(3)]
	}
	// (every such call is a write transaction on the database the header stores use as well: a few dozen per
	// second, so that the sync itself is not slowed down; the lookup right after the ban finds it lapsed and
	// reaps it while the lookups of the user above are under way)
	user(func(r *rand.Rand) {
		a := banAddr(r)
		cs.BanPeer(a, banman.ExceededBanThreshold)
		cs.IsBanned(a)
		time.Sleep(15 * time.Millisecond)
	})
	user(func(r *rand.Rand) {
		b := pick(r)
		if bs, err := cs.BestBlock(); err != nil || bs.Height < b.Height+3 {
			return
		}
		switch r.Intn(3) {
		case 0:
			cs.GetCFilter(b.Hash, wire.GCSFilterRegular, neutrino.OptimisticBatch(), neutrino.MaxBatchSize(8))
		case 1:
			cs.GetCFilter(b.Hash, wire.GCSFilterRegular, neutrino.OptimisticReverseBatch())
		default:
			cs.GetCFilter(b.Hash, wire.GCSFilterRegular)
		}
	})
	// a block subscription with a backlog (NotificationsSinceHeight) that is drained and renewed
	user(func(r *rand.Rand) {
		bs, err := cs.BestBlock()
		if err != nil {
			return
		}
		from := uint32(0)
		if bs.Height > 2 {
			from = uint32(r.Intn(int(bs.Height)))
		}
		sub, err := src.Subscribe(from)
		if err != nil {
			return
		}
		limit := time.After(time.Duration(5+r.Intn(40)) * time.Millisecond)
	drain:
		for {
			select {
			case _, ok := <-sub.Notifications:
				if !ok {
					break drain
				}
			case <-limit:
				break drain
			}
		}
		sub.Cancel()
	})
	// a UTXO lookup for a coinbase output
	user(func(r *rand.Rand) {
		b := pick(r)
		if bs, err := cs.BestBlock(); err != nil || bs.Height < b.Height {
			return
		}
		cb := b.Msg.Transactions[0]
		q := make(chan struct{})
		tm := time.AfterFunc(300*time.Millisecond, func() { close(q) })
		cs.GetUtxo(
			neutrino.WatchInputs(neutrino.InputWithScript{OutPoint: wire.OutPoint{Hash: cb.TxHash()}, PkScript: cb.TxOut[0].PkScript}),
			neutrino.StartBlock(&headerfs.BlockStamp{Height: b.Height, Hash: b.Hash}),
			neutrino.QuitChan(q),
		)
		tm.Stop()
	})
	// a rescan over the whole chain with filter updates
	rsQuit := make(chan struct{})
	b1 := known[0]
	rs := neutrino.NewRescan(src,
		neutrino.StartBlock(&headerfs.BlockStamp{Height: 0, Hash: s.W.Genesis.Hash}),
		neutrino.WatchInputs(neutrino.InputWithScript{OutPoint: wire.OutPoint{Hash: b1.Msg.Transactions[0].TxHash()}, PkScript: b1.Msg.Transactions[0].TxOut[0].PkScript}),
		neutrino.NotificationHandlers(rpcclient.NotificationHandlers{
			OnFilteredBlockConnected:    func(int32, *wire.BlockHeader, []*btcutil.Tx) {},
			OnFilteredBlockDisconnected: func(int32, *wire.BlockHeader) {},
		}),
		neutrino.QuitChan(rsQuit),
	)
	errCh := rs.Start()
	user(func(r *rand.Rand) {
		b := pick(r)
		done := make(chan struct{})
		go func() {
			rs.Update(neutrino.AddInputs(neutrino.InputWithScript{
				OutPoint: wire.OutPoint{Hash: b.Msg.Transactions[0].TxHash()}, PkScript: b.Msg.Transactions[0].TxOut[0].PkScript}))
			close(done)
		}()
		select {
		case <-done:
		case <-time.After(500 * time.Millisecond):
		}
		time.Sleep(20 * time.Millisecond)
	})

	s.Run()
	s.Stop()
	atomic.StoreInt32(&stop, 1)
	close(rsQuit)
	fin := make(chan struct{})
	go func() { wg.Wait(); rs.WaitForShutdown(); close(fin) }()
	select {
	case <-fin:
	case <-time.After(4 * time.Second):
	}
	select {
	case <-errCh:
	default:
	}
}
