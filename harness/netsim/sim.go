package netsim

import (
	"context"
	"errors"
	"fmt"
	"math/rand"
	"net"
	"os"
	"path/filepath"
	"runtime"
	"sort"
	"strings"
	"sync"
	"sync/atomic"
	"time"

	"github.com/btcsuite/btcd/chaincfg/v2"
	"github.com/btcsuite/btcd/peer"
	"github.com/btcsuite/btclog"
	"github.com/btcsuite/btcwallet/walletdb"
	_ "github.com/btcsuite/btcwallet/walletdb/bdb"
	"github.com/lightninglabs/neutrino"
	"github.com/lightninglabs/neutrino/query"
)

// Event is one step of a scenario's script.
type Event struct {
	Kind string // waitsync | grow | reorg | sleep | cfilter
	A, B int    // grow: n ; reorg: depth, newlen ; sleep: ms ; cfilter: height
}

// Scenario = peers with behaviours + script of honest-side events.
type Scenario struct {
	Name         string
	Len          int // initial honest chain length
	Peers        []Behaviour
	Addrs        []string // optional explicit addresses
	Script       []Event
	Deadline     time.Duration // budget for the final convergence wait
	Checkpts     []int         // heights of block checkpoints set in the chain parameters
	Parallel     bool          // dial all peers at once instead of in listed order
	Barrier      bool          // peers hold their first headers reply until every listed peer has connected
	HoldCurrent  bool          // peer i+1 is dialled only once the client reports IsCurrent() (it has caught up with peer i)
	FutureTipMin int           // when set: the last block of the initial chain is stamped this many minutes in the FUTURE
	TipAge       time.Duration // when set: the honest tip's timestamp is this far in the past when the scenario is built
	ManualGate   bool          // only peer 0 is dialled at the start; the scenario opens the other gates itself (OpenGate)
	NoRedial     bool          // every peer can be dialled once: a peer the client dropped does not come back, nobody new joins
	HoldCF       bool          // peer i+1 is dialled only after peer i has been asked for cfheaders (peer i alone at first)
}

// Sim is one running scenario.
type Sim struct {
	Sc     Scenario
	W      *World
	Peers  []*Peer
	CS     *neutrino.ChainService
	DB     walletdb.DB
	Dir    string
	byAddr map[string]*Peer
	gate   []chan struct{} // gate[i] closed when peer i may be dialled
	gateMu sync.Mutex
	allCon chan struct{}
	wg     sync.WaitGroup
	closed int32
	rng    *rand.Rand
	nsamp  int
	last   string
	out    func(op, obs string)
	start  time.Time

	HangDump string // goroutine stacks at the moment the Stop watchdog fired
}

var setupOnce sync.Once

// Setup fixes the package-level knobs of the client for the simulation (they
// are plain exported variables of the public API).
func Setup() {
	setupOnce.Do(func() {
		neutrino.DisableDNSSeed = true
		neutrino.QueryTimeout = 1500 * time.Millisecond
		neutrino.QueryPeerConnectTimeout = 2 * time.Second
		neutrino.ConnectionRetryInterval = 2 * time.Second
		if p := os.Getenv("NETSIM_LOG"); p != "" {
			f, err := os.Create(p)
			if err == nil {
				be := btclog.NewBackend(f)
				l := be.Logger("NTRN")
				l.SetLevel(btclog.LevelDebug)
				neutrino.UseLogger(l)
				q := be.Logger("QURY")
				q.SetLevel(btclog.LevelDebug)
				query.UseLogger(q)
				pl := be.Logger("PEER")
				pl.SetLevel(btclog.LevelDebug)
				peer.UseLogger(pl)
			}
		}
	})
}

type pipeAddr struct{ s string }

func (a pipeAddr) Network() string { return "tcp" }
func (a pipeAddr) String() string  { return a.s }

// New builds ground truth and the scripted peers, and creates (but does not
// start) the real ChainService.
func New(sc Scenario, rng *rand.Rand, out func(op, obs string)) (*Sim, error) {
	Setup()
	s := &Sim{Sc: sc, rng: rng, out: out, byAddr: map[string]*Peer{}, allCon: make(chan struct{})}
	s.W = NewWorld(rng)
	if sc.TipAge > 0 {
		// blocks are one second apart: block 1 is Len-1 seconds older than the tip
		s.W.FirstBlockTime = time.Now().Add(-sc.TipAge - time.Duration(sc.Len-1)*time.Second)
	}
	var tip *Blk
	if sc.FutureTipMin > 0 {
		// the last block is stamped ahead of the wall clock
		tip = s.W.Extend(s.W.Genesis, sc.Len-1, "t")
		tip = s.W.ExtendAt(tip, "t", time.Now().Add(time.Duration(sc.FutureTipMin)*time.Minute))
	} else {
		tip = s.W.Extend(s.W.Genesis, sc.Len, "t")
	}
	s.W.SetHonest(tip)
	for i, b := range sc.Peers {
		addr := fmt.Sprintf("10.0.%d.%d:18444", i/200, 1+i%200)
		if i < len(sc.Addrs) && sc.Addrs[i] != "" {
			addr = sc.Addrs[i]
		}
		if b.Kind == "liarCFHeaders" && b.Variant == "consistent" && b.H <= sc.Len {
			// the false filter must be refutable from the block: move the lie to a block
			// that has more than its coinbase (with one honest and one lying peer nothing
			// else can break the tie, and the client rightly waits for a majority)
			for d := 0; d <= sc.Len; d++ {
				if x := tip.Ancestor(int32(b.H + d)); x != nil && x.Height > 0 && len(x.Msg.Transactions) > 1 {
					b.H += d
					break
				}
				if x := tip.Ancestor(int32(b.H - d)); x != nil && x.Height > 0 && len(x.Msg.Transactions) > 1 {
					b.H -= d
					break
				}
			}
		}
		p := &Peer{Idx: i, Addr: addr, B: b, w: s.W, Release: make(chan struct{})}
		switch b.Kind {
		case "lagging":
			// serves the honest chain of the start minus its last b.H blocks, and nothing newer
			p.own = tip.Ancestor(tip.Height - int32(b.H))
		case "lighterFork":
			// a valid branch leaving the honest chain b.H blocks below its tip, b.N blocks long
			fork := tip.Ancestor(tip.Height - int32(b.H))
			p.own = s.W.Extend(fork, b.N, s.W.NextLetter())
		case "liarHeaders":
			base := tip.Ancestor(int32(b.H) - 1)
			f := s.W.FakeHeader(base, b.Variant)
			f = s.W.FakeHeader(f, "pow")
			p.own = f
		}
		if sc.Barrier {
			p.barrier = s.allCon
		}
		s.Peers = append(s.Peers, p)
		s.byAddr[addr] = p
		s.gate = append(s.gate, make(chan struct{}))
	}
	for _, h := range sc.Checkpts {
		b := tip.Ancestor(int32(h))
		hash := b.Hash
		s.W.Params.Checkpoints = append(s.W.Params.Checkpoints, chaincfg.Checkpoint{Height: int32(h), Hash: &hash})
	}
	dir, err := os.MkdirTemp("", "netsim-")
	if err != nil {
		return nil, err
	}
	s.Dir = dir
	if err := s.open(); err != nil {
		os.RemoveAll(dir)
		return nil, err
	}
	return s, nil
}

// open creates the database and a fresh ChainService over s.Dir.
func (s *Sim) open() error { return s.openWith(true) }

// reopen: a fresh, never started ChainService over the same directory (no peers)
func (s *Sim) reopen() error { return s.openWith(false) }

func (s *Sim) openWith(withPeers bool) error {
	dbPath := filepath.Join(s.Dir, "neutrino.db")
	var db walletdb.DB
	var err error
	if _, e := os.Stat(dbPath); e == nil {
		db, err = walletdb.Open("bdb", dbPath, true, 10*time.Second, false)
	} else {
		db, err = walletdb.Create("bdb", dbPath, true, 10*time.Second, false)
	}
	if err != nil {
		return err
	}
	s.DB = db
	addrs := make([]string, len(s.Peers))
	for i, p := range s.Peers {
		addrs[i] = p.Addr
	}
	if !withPeers {
		addrs = nil
	}
	cfg := neutrino.Config{
		DataDir:          s.Dir,
		Database:         db,
		ChainParams:      s.W.Params,
		ConnectPeers:     addrs,
		Dialer:           s.dial,
		NameResolver:     func(host string) ([]net.IP, error) { return []net.IP{net.ParseIP(host)}, nil },
		BroadcastTimeout: 600 * time.Millisecond,
	}
	cs, err := neutrino.NewChainService(cfg)
	if err != nil {
		db.Close()
		return err
	}
	s.CS = cs
	return nil
}

func (s *Sim) dial(a net.Addr) (net.Conn, error) {
	if atomic.LoadInt32(&s.closed) != 0 {
		return nil, errors.New("simulation over")
	}
	p := s.byAddr[a.String()]
	if p == nil {
		return nil, fmt.Errorf("no route to %s", a)
	}
	if s.Sc.NoRedial && atomic.LoadInt32(&p.Sessions) > 0 {
		return nil, errors.New("connection refused")
	}
	if !s.Sc.Parallel {
		select {
		case <-s.gate[p.Idx]:
		case <-time.After(10 * time.Second):
			return nil, errors.New("dial gate timeout")
		}
	}
	if atomic.LoadInt32(&s.closed) != 0 {
		return nil, errors.New("simulation over")
	}
	c1, c2 := net.Pipe()
	s.wg.Add(1)
	go func() {
		defer s.wg.Done()
		p.Serve(c2)
	}()
	return c1, nil
}

// Start starts the client and releases the peers' dial gates in listed order:
// peer i+1 may connect once peer i has been seen connected (or has been turned
// away / has disconnected), so that the connection order is the listed order.
func (s *Sim) Start() error {
	s.start = time.Now()
	if err := s.CS.Start(context.Background()); err != nil {
		return err
	}
	s.wg.Add(1)
	go func() {
		defer s.wg.Done()
		for i := range s.Peers {
			if s.Sc.ManualGate && i > 0 {
				break
			}
			s.openGate(i)
			p := s.Peers[i]
			dl := time.Now().Add(3 * time.Second)
			for time.Now().Before(dl) && atomic.LoadInt32(&s.closed) == 0 {
				if atomic.LoadInt32(&p.Sessions) > 0 && (!p.live() || s.connectedTo(p)) &&
					(!s.Sc.HoldCurrent || i == len(s.Peers)-1 || s.CS.IsCurrent()) &&
					(!s.Sc.HoldCF || i == len(s.Peers)-1 || atomic.LoadInt32(&p.GotGetCFHeaders) > 0) {
					break
				}
				time.Sleep(3 * time.Millisecond)
			}
			// give the block manager a moment to see the new peer before the next one
			time.Sleep(20 * time.Millisecond)
		}
		close(s.allCon)
	}()
	return nil
}

// OpenGate lets peer i be dialled (ManualGate scenarios).
func (s *Sim) OpenGate(i int) { s.openGate(i) }

func (s *Sim) openGate(i int) {
	s.gateMu.Lock()
	defer s.gateMu.Unlock()
	select {
	case <-s.gate[i]:
	default:
		close(s.gate[i])
	}
}

func (s *Sim) connectedTo(p *Peer) bool {
	for _, sp := range s.peersTimed() {
		if sp.Addr() == p.Addr {
			return true
		}
	}
	return false
}

// peersTimed is Peers() with a watchdog.
func (s *Sim) peersTimed() []*neutrino.ServerPeer {
	ch := make(chan []*neutrino.ServerPeer, 1)
	go func() { ch <- s.CS.Peers() }()
	select {
	case r := <-ch:
		return r
	case <-time.After(2 * time.Second):
		return nil
	}
}

// Obs is one observation of the client through its public API.
type Obs struct {
	Best, BTip, FTip string // "<h>:<id>" or "err"
	Current          bool
	Banned, Conn     []int
}

func (o Obs) String() string {
	c := 0
	if o.Current {
		c = 1
	}
	return fmt.Sprintf("best %s btip %s ftip %s current %d banned %s conn %s", o.Best, o.BTip, o.FTip, c, ints(o.Banned), ints(o.Conn))
}

func ints(xs []int) string {
	ss := make([]string, len(xs))
	for i, x := range xs {
		ss[i] = fmt.Sprint(x)
	}
	return "[" + strings.Join(ss, " ") + "]"
}

func (s *Sim) Observe() Obs {
	var o Obs
	if bs, err := s.CS.BestBlock(); err != nil {
		o.Best = "err"
	} else {
		o.Best = fmt.Sprintf("%d:%s", bs.Height, s.W.BlockID(bs.Hash))
	}
	if fh, h, err := s.CS.RegFilterHeaders.ChainTip(); err != nil {
		o.FTip = "err"
	} else {
		o.FTip = fmt.Sprintf("%d:%s", h, s.W.FilterID(*fh))
	}
	if hdr, h, err := s.CS.BlockHeaders.ChainTip(); err != nil {
		o.BTip = "err"
	} else {
		o.BTip = fmt.Sprintf("%d:%s", h, s.W.BlockID(hdr.BlockHash()))
	}
	o.Current = s.CS.IsCurrent()
	for _, p := range s.Peers {
		if s.CS.IsBanned(p.Addr) {
			o.Banned = append(o.Banned, p.Idx)
		}
	}
	for _, sp := range s.peersTimed() {
		if p := s.byAddr[sp.Addr()]; p != nil {
			o.Conn = append(o.Conn, p.Idx)
		}
	}
	sort.Ints(o.Conn)
	return o
}

// sample observes and writes a trace line when the observation changed.
func (s *Sim) sample() Obs {
	o := s.Observe()
	s.nsamp++
	if str := o.String(); str != s.last {
		s.last = str
		s.out("sample", str)
	}
	return o
}

// want: the converged observation for the current honest tip
func (s *Sim) converged(o Obs) bool {
	t := s.W.Honest()
	exp := fmt.Sprintf("%d:%s", t.Height, t.ID)
	return o.Best == exp && o.BTip == exp && o.FTip == fmt.Sprintf("%d:f%s", t.Height, t.ID)
}

// settled: converged, and the bans the scenario must end with are in place
func (s *Sim) settled(o Obs) bool {
	if !s.converged(o) {
		return false
	}
	for _, p := range s.Peers {
		mustBan := p.B.Kind == "noServices" ||
			((p.B.Kind == "liarCFHeaders" || p.B.Kind == "liarCFCheckpt") && atomic.LoadInt32(&p.Lied) > 0)
		if mustBan && (!contains(o.Banned, p.Idx) || contains(o.Conn, p.Idx)) {
			return false
		}
		if p.B.Kind == "honest" && !contains(o.Conn, p.Idx) {
			return false
		}
	}
	return true
}

func contains(xs []int, x int) bool {
	for _, y := range xs {
		if y == x {
			return true
		}
	}
	return false
}

// waitFor samples every 20 ms until cond holds or the budget is used up.
func (s *Sim) waitFor(budget time.Duration, cond func(Obs) bool) bool {
	dl := time.Now().Add(budget)
	for {
		o := s.sample()
		if cond(o) {
			return true
		}
		if time.Now().After(dl) {
			return false
		}
		time.Sleep(20 * time.Millisecond)
	}
}

// announce: every peer that follows the honest chain announces its new tip
// (all=true: also the peers on their own branches).
func (s *Sim) announce(all bool) {
	for _, p := range s.Peers {
		if all || p.B.followsHonest() {
			p.Announce()
		}
	}
}

// Run executes the script and the final observation.
func (s *Sim) Run() {
	budget := s.Sc.Deadline
	if budget == 0 {
		budget = 8 * time.Second
	}
	for _, ev := range s.Sc.Script {
		switch ev.Kind {
		case "waitsync":
			// every listed peer has had its turn to connect, and the client holds the honest tip
			s.waitFor(budget, func(Obs) bool {
				select {
				case <-s.allCon:
					return true
				default:
					return false
				}
			})
			ok := s.waitFor(budget, s.converged)
			s.out("waitsync", map[bool]string{true: "ok", false: "timeout"}[ok])
		case "grow":
			t := s.W.Honest()
			letter := t.ID[:1]
			nt := s.W.Extend(t, ev.A, letter)
			s.W.SetHonest(nt)
			s.out(fmt.Sprintf("grow %d", ev.A), fmt.Sprintf("honest %d:%s", nt.Height, nt.ID))
			s.announce(false)
		case "reorg":
			t := s.W.Honest()
			fork := t.Ancestor(t.Height - int32(ev.A))
			nt := s.W.Extend(fork, ev.B, s.W.NextLetter())
			s.W.SetHonest(nt)
			s.out(fmt.Sprintf("reorg %d %d", ev.A, ev.B), fmt.Sprintf("honest %d:%s", nt.Height, nt.ID))
			s.announce(false)
		case "announce":
			s.out("announce", "-")
			s.announce(true)
		case "sleep":
			s.waitFor(time.Duration(ev.A)*time.Millisecond, func(Obs) bool { return false })
		case "flood":
			// peer ev.A floods ev.B junk block announcements (asynchronously)
			s.out(fmt.Sprintf("flood %d %d", ev.A, ev.B), "-")
			go s.Peers[ev.A].Flood(ev.B)
		case "drain":
			// wait until the flooder's announcements have all been written to the client
			for k := 0; k < 400 && s.Peers[ev.A].Backlog() > 0; k++ {
				s.waitFor(50*time.Millisecond, func(Obs) bool { return false })
			}
			s.out(fmt.Sprintf("drain %d", ev.A), fmt.Sprintf("left %d", min1(int32(s.Peers[ev.A].Backlog()))))
		case "drop":
			// peer ev.A closes its connection (and, with NoRedial, does not come back)
			s.Peers[ev.A].Drop()
			gone := s.waitFor(2*time.Second, func(o Obs) bool { return !contains(o.Conn, ev.A) })
			s.out(fmt.Sprintf("drop %d", ev.A), map[bool]string{true: "gone", false: "still-listed"}[gone])
		case "age":
			// wait until the client's block tip is older than 24 hours
			for k := 0; k < 3000; k++ {
				hdr, _, err := s.CS.BlockHeaders.ChainTip()
				if err != nil || time.Since(hdr.Timestamp) > 24*time.Hour+time.Second {
					break
				}
				s.waitFor(100*time.Millisecond, func(Obs) bool { return false })
			}
			s.out("age", fmt.Sprintf("current %d", map[bool]int{true: 1, false: 0}[s.CS.IsCurrent()]))
		case "cfilter":
			s.out(fmt.Sprintf("cfilter %d", ev.A), s.getCFilter(int32(ev.A)))
		}
	}
	s.waitFor(budget, s.settled)
	// a short quiet period: nothing may move away from the converged state
	s.waitFor(150*time.Millisecond, func(Obs) bool { return false })
	o := s.Observe()
	s.out("final", o.String()+" "+s.chainCheck()+" sync "+s.syncPeer(o))
	s.askedLines()
}

// askedLines: which kinds of requests each peer has received so far.
func (s *Sim) askedLines() {
	for _, p := range s.Peers {
		s.out(fmt.Sprintf("asked %d", p.Idx), fmt.Sprintf("getheaders %d getcfcheckpt %d getcfheaders %d getcfilters %d getdata %d sessions %d lied %d",
			min1(atomic.LoadInt32(&p.GotGetHeaders)), min1(atomic.LoadInt32(&p.GotGetCFCheckpt)), min1(atomic.LoadInt32(&p.GotGetCFHeaders)), min1(atomic.LoadInt32(&p.GotGetCFilters)), min1(atomic.LoadInt32(&p.GotGetData)),
			min1(p.Sessions), atomic.LoadInt32(&p.Lied)))
	}
}

// min1 canonicalises a message count to 0/1 (the exact count depends on timing)
func min1(v int32) int {
	if atomic.LoadInt32(&v) > 0 {
		return 1
	}
	return 0
}

// getCFilter fetches the filter of the honest block at height h through the
// public API and compares it with ground truth.
func (s *Sim) getCFilter(h int32) string {
	b := s.W.Honest().Ancestor(h)
	if b == nil {
		return "err"
	}
	type res struct {
		data []byte
		err  error
	}
	ch := make(chan res, 1)
	go func() {
		f, err := s.CS.GetCFilter(b.Hash, 0)
		if err != nil || f == nil {
			ch <- res{nil, errors.New("fail")}
			return
		}
		d, _ := f.NBytes()
		ch <- res{d, nil}
	}()
	select {
	case r := <-ch:
		if r.err != nil {
			return "err"
		}
		if string(r.data) == string(b.FBytes) {
			return "true"
		}
		return "false"
	case <-time.After(6 * time.Second):
		return "HANG"
	}
}

// syncPeer names the block manager's sync peer relative to the peers that are
// connected in observation o: none | <i> (connected peer i) | gone:<i> (peer i is
// no longer connected) | unknown.
func (s *Sim) syncPeer(o Obs) string {
	addr := s.CS.VerifSyncPeerAddr()
	if addr == "" {
		return "none"
	}
	p := s.byAddr[addr]
	if p == nil {
		return "unknown"
	}
	// a peer counts as connected when the client lists it, or when its connection is
	// still live on the node's side (the done event may be in flight)
	for k := 0; k < 25; k++ {
		if contains(o.Conn, p.Idx) {
			return fmt.Sprint(p.Idx)
		}
		if s.CS.VerifSyncPeerAddr() != addr {
			return s.syncPeer(s.Observe())
		}
		time.Sleep(20 * time.Millisecond)
		o = s.Observe()
	}
	return fmt.Sprintf("gone:%d", p.Idx)
}

// chainCheck walks the stored chain by height and compares every block header
// and filter header with the ground-truth ancestors of the stored tip.
func (s *Sim) chainCheck() string {
	hdr, h, err := s.CS.BlockHeaders.ChainTip()
	if err != nil {
		return "chain err fchain err"
	}
	tip := s.W.Lookup(hdr.BlockHash())
	chain, fchain := "ok", "ok"
	if tip == nil || !tip.Valid || tip.Height != int32(h) {
		return "chain bad@tip fchain bad@tip"
	}
	path := tip.Path()
	for k := uint32(0); k <= h; k++ {
		x, err := s.CS.BlockHeaders.FetchHeaderByHeight(k)
		if err != nil || x.BlockHash() != path[k].Hash {
			chain = fmt.Sprintf("bad@%d", k)
			break
		}
	}
	_, fh, err := s.CS.RegFilterHeaders.ChainTip()
	if err != nil {
		return "chain " + chain + " fchain err"
	}
	for k := uint32(0); k <= fh && k <= h; k++ {
		x, err := s.CS.RegFilterHeaders.FetchHeaderByHeight(k)
		if err != nil || *x != path[k].FHeader {
			fchain = fmt.Sprintf("bad@%d", k)
			break
		}
	}
	if fh > h {
		fchain = "above-tip"
	}
	return "chain " + chain + " fchain " + fchain
}

// Stop stops the client with a watchdog and removes the scratch directory.
// It returns how long Stop took, or -1 when it did not return in time.
func (s *Sim) Stop() time.Duration {
	atomic.StoreInt32(&s.closed, 1)
	t0 := time.Now()
	done := make(chan struct{})
	go func() { s.CS.Stop(); close(done) }()
	d := time.Duration(-1)
	select {
	case <-done:
		d = time.Since(t0)
	case <-time.After(15 * time.Second):
		s.HangDump = Goroutines() // before the peers' connections are torn down
	}
	for _, p := range s.Peers {
		p.mu.Lock()
		c := p.cur
		p.mu.Unlock()
		if c != nil {
			c.close()
		}
	}
	for i := range s.gate {
		s.openGate(i)
	}
	wdone := make(chan struct{})
	go func() { s.wg.Wait(); close(wdone) }()
	select {
	case <-wdone:
	case <-time.After(3 * time.Second):
	}
	if d >= 0 {
		s.DB.Close()
	}
	return d
}

func (s *Sim) Cleanup() { os.RemoveAll(s.Dir) }

// Goroutines returns a dump of all goroutine stacks (for hang reports).
func Goroutines() string {
	buf := make([]byte, 1<<20)
	n := runtime.Stack(buf, true)
	return string(buf[:n])
}
