package netsim

// Probes of three suspected defects of the real peer/query stack, each as a
// small driver of its own so that it can be attached to the property it
// belongs to:  net-c13 (ban enforcement), net-c15 (broadcast verdict),
// net-c17 (calls racing with Stop).

import (
	"context"
	"fmt"
	"math/rand"
	"net"
	"os"
	"regexp"
	"sort"
	"strings"
	"sync"
	"sync/atomic"
	"time"

	"github.com/btcsuite/btcd/btcutil/v2"
	"github.com/btcsuite/btcd/chainhash/v2"
	"github.com/btcsuite/btcd/rpcclient"
	"github.com/btcsuite/btcd/wire/v2"
	"github.com/lightninglabs/neutrino"
	"github.com/lightninglabs/neutrino/banman"
	"github.com/lightninglabs/neutrino/blockntfns"
	"github.com/lightninglabs/neutrino/headerfs"
	"verifharness/rejcorpus"
	"verifharness/tr"
)

func init() {
	tr.Register("net-c13", DriveC13)
	tr.Register("net-c15", DriveC15)
	tr.Register("net-c17", DriveC17)
}

func peerLines(t *tr.W, s *Sim) {
	for i, p := range s.Peers {
		host, port, err := net.SplitHostPort(p.Addr)
		if err != nil {
			host, port, _ = strings.Cut(p.Addr, ":")
		}
		t.Op(fmt.Sprintf("peer %d %s", i, p.B), fmt.Sprintf("addr %s %s", host, port))
		t.Hit("peer." + p.B.Kind)
	}
}

func stopLine(t *tr.W, s *Sim, name string) {
	if d := s.Stop(); d < 0 {
		t.Op("stop", "HANG")
		fmt.Fprintf(os.Stderr, "netsim: Stop hung in %s\n%s\n", name, Goroutines())
	} else {
		t.Op("stop", "ok")
	}
}

// ---------------------------------------------------------------- C13 ----

// DriveC13: after a ban no connected peer may have a banned address.
func DriveC13(t *tr.W, thorough bool) {
	rng := tr.Rng(1313)
	type variant struct {
		name  string
		addrs []string
		peers []Behaviour
		how   string // direct: ChainService.BanPeer(addr of peer 0) ; lie: peer 0 serves a false filter header
		hold  int    // 1+index of a peer that sits on its version handshake until the ban is in place (0: none)
	}
	vs := []variant{
		{"same-ip-direct", []string{"10.0.0.5:18444", "10.0.0.5:18445"}, []Behaviour{honest(), honest()}, "direct", 0},
		{"other-ip-direct", []string{"10.0.0.5:18444", "10.0.0.6:18444"}, []Behaviour{honest(), honest()}, "direct", 0},
		{"same-ip-lie", []string{"10.0.0.5:18444", "10.0.0.5:18445", "10.0.0.7:18444"},
			[]Behaviour{{Kind: "liarCFHeaders", H: 1 << 20, Variant: "inconsistent"}, honest(), honest()}, "lie", 0},
		// IPv6 peers: two on one address (different ports), a third elsewhere (another /64)
		{"ipv6-same-ip-direct", []string{"[2001:db8::5]:18444", "[2001:db8::5]:18445", "[2001:db8:0:2::1]:18444"},
			[]Behaviour{honest(), honest(), honest()}, "direct", 0},
		{"ipv6-same-ip-lie", []string{"[2001:db8:0:1::9]:18444", "[2001:db8:0:1::9]:18445", "10.0.0.7:18444"},
			[]Behaviour{{Kind: "liarCFHeaders", H: 1 << 20, Variant: "inconsistent"}, honest(), honest()}, "lie", 0},
		// the liar's address is not an IP literal (a tor peer): the ban cannot be recorded, the peer must go all
		// the same (BanPeer disconnects regardless of whether the ban could be recorded)
		{"nonip-lie", []string{"abcdefghijklmnop.onion:18444", "10.0.0.7:18444", "10.0.0.8:18444"},
			[]Behaviour{{Kind: "liarCFHeaders", H: 1 << 20, Variant: "inconsistent"}, honest(), honest()}, "lie-nonip", 0},
		// a second connection to the banned IP is still in its version handshake when the first one is banned
		// (directly / for a lie) and completes it afterwards: handleAddPeerMsg must turn it away
		{"handshake-race-direct", []string{"10.0.0.5:18444", "10.0.0.7:18444", "10.0.0.5:18445"},
			[]Behaviour{honest(), honest(), honest()}, "direct", 3},
		{"handshake-race-lie", []string{"10.0.0.5:18444", "10.0.0.7:18444", "10.0.0.5:18445"},
			[]Behaviour{{Kind: "liarCFHeaders", H: 1 << 20, Variant: "inconsistent"}, honest(), honest()}, "lie", 3},
		// a peer offering exactly one of WITNESS / CF (both variants, first and second to connect): it must be
		// banned, dropped and never asked anything
		{"lacks-cf-first", nil, []Behaviour{{Kind: "noServices", Variant: "cf"}, honest()}, "services", 0},
		{"lacks-witness-first", nil, []Behaviour{{Kind: "noServices", Variant: "witness"}, honest()}, "services", 0},
		{"lacks-cf-second", nil, []Behaviour{honest(), {Kind: "noServices", Variant: "cf"}}, "services", 0},
		{"lacks-witness-second", nil, []Behaviour{honest(), {Kind: "noServices", Variant: "witness"}}, "services", 0},
		// ... and the same peers when the handshake never gets past their version message (they announce their
		// services and then withhold the verack), or completes on the wire and is hung up at once: what the peer
		// offers is known from the version message on, so the ban and the disconnect are due then, not at a
		// later step (verack, add-peer) that such a peer can keep from ever happening
		{"lacks-cf-noverack-first", nil, []Behaviour{{Kind: "noServices", Variant: "cf-noverack"}, honest()}, "services", 0},
		{"lacks-witness-noverack-second", nil, []Behaviour{honest(), {Kind: "noServices", Variant: "witness-noverack"}}, "services", 0},
		{"lacks-cf-hangup-second", nil, []Behaviour{honest(), {Kind: "noServices", Variant: "cf-hangup"}}, "services", 0},
		{"lacks-witness-hangup-first", nil, []Behaviour{{Kind: "noServices", Variant: "witness-hangup"}, honest()}, "services", 0},
	}
	for _, v := range vs {
		l := 20 + rng.Intn(20)
		sc := Scenario{Name: v.name, Len: l, Peers: v.peers, Addrs: v.addrs, Barrier: v.hold == 0}
		if v.how == "lie" || v.how == "lie-nonip" {
			sc.Peers[0].H = l + 1
		}
		t.Case("c13 %s len %d npeers %d", v.name, l, len(v.peers))
		s, err := New(sc, rng, t.Op)
		if err != nil {
			t.Line("# setup error: %s", sanitize(err.Error()))
			t.Op("setup", "err")
			continue
		}
		peerLines(t, s)
		var held *Peer
		if v.hold > 0 {
			held = s.Peers[v.hold-1]
			held.HoldGate = make(chan struct{})
		}
		if err := s.Start(); err != nil {
			t.Line("# start error: %s", sanitize(err.Error()))
			t.Op("start", "err")
			s.Cleanup()
			continue
		}
		allIn := func(o Obs) bool { return s.converged(o) && len(o.Conn) == len(s.Peers) }
		if held != nil {
			// everybody else is in, the held peer's connection is up and waits in its handshake
			allIn = func(o Obs) bool {
				return s.converged(o) && len(o.Conn) == len(s.Peers)-1 && atomic.LoadInt32(&held.Held) == 1
			}
		}
		if v.how == "services" {
			// every peer has had its turn, the full-service peers are in, the others banned and out
			allIn = func(o Obs) bool {
				select {
				case <-s.allCon:
				default:
					return false
				}
				return s.settled(o)
			}
		}
		budget := 6 * time.Second
		if v.how == "services" {
			budget = 3 * time.Second
		}
		ok := s.waitFor(budget, allIn)
		t.Op("waitsync", map[bool]string{true: "ok", false: "timeout"}[ok])
		switch v.how {
		case "direct":
			err := s.CS.BanPeer(s.Peers[0].Addr, banman.ExceededBanThreshold)
			t.Op("banpeer 0", map[bool]string{true: "ok", false: "err"}[err == nil])
		case "lie":
			nt := s.W.Extend(s.W.Honest(), 1, "t")
			s.W.SetHonest(nt)
			t.Op("grow 1", fmt.Sprintf("honest %d:%s", nt.Height, nt.ID))
			s.announce(false)
			s.waitFor(6*time.Second, func(o Obs) bool { return contains(o.Banned, 0) })
		case "lie-nonip":
			nt := s.W.Extend(s.W.Honest(), 1, "t")
			s.W.SetHonest(nt)
			t.Op("grow 1", fmt.Sprintf("honest %d:%s", nt.Height, nt.ID))
			s.announce(false)
			// the lie is served and found out; the liar is dropped (it is a persistent peer and not banned, so it
			// will be dialled again later: observe at once)
			liar := s.Peers[0]
			s.waitFor(4*time.Second, func(o Obs) bool {
				return atomic.LoadInt32(&liar.Lied) > 0 && s.converged(o) && !contains(o.Conn, 0)
			})
			t.Op("misbehaved 0", fmt.Sprintf("lied %d nonip", atomic.LoadInt32(&liar.Lied)))
		}
		// the disconnect of banned peers is asynchronous: give it a bounded time
		clean := func(o Obs) bool {
			for _, i := range o.Conn {
				if contains(o.Banned, i) {
					return false
				}
			}
			return len(o.Banned) > 0
		}
		if v.how != "lie-nonip" {
			s.waitFor(1500*time.Millisecond, clean)
		}
		if held != nil {
			// the ban is in place: the held connection now finishes its handshake
			isHeld := atomic.LoadInt32(&held.Held) == 1
			close(held.HoldGate)
			t.Op(fmt.Sprintf("release %d", held.Idx), map[bool]string{true: "held", false: "not-held"}[isHeld])
			dl := time.Now().Add(2 * time.Second)
			for time.Now().Before(dl) && atomic.LoadInt32(&held.Handshakes) == 0 {
				time.Sleep(10 * time.Millisecond)
			}
			s.waitFor(500*time.Millisecond, func(Obs) bool { return false })
			t.Hit("c13.handshake-race")
		}
		if v.how == "services" {
			// give a kept peer the time to be asked something
			s.waitFor(300*time.Millisecond, func(Obs) bool { return false })
		}
		o := s.Observe()
		t.Op("after", o.String())
		if v.how == "services" {
			s.askedLines()
			for _, p := range s.Peers {
				if n := atomic.LoadInt32(&p.Stalled); n > 0 {
					t.Hit("c13.services.handshake-stalled-after-version")
				}
			}
		}
		t.Hit("c13." + v.how)
		stopLine(t, s, v.name)
		s.Cleanup()
	}
	driveC13Spellings(t, rng)
}

// ---------------------------------------------------------------- C15 ----

func testTx(rng *rand.Rand) *wire.MsgTx {
	tx := wire.NewMsgTx(2)
	var h chainhash.Hash
	rng.Read(h[:])
	tx.AddTxIn(&wire.TxIn{PreviousOutPoint: wire.OutPoint{Hash: h, Index: 0}, Sequence: wire.MaxTxInSequenceNum,
		Witness: wire.TxWitness{make([]byte, 71), make([]byte, 33)}})
	tx.AddTxOut(wire.NewTxOut(1000, []byte{0x00, 0x14, 1, 2, 3, 4, 5, 6, 7, 8, 9, 10, 11, 12, 13, 14, 15, 16, 17, 18, 19, 20}))
	return tx
}

// DriveC15: the verdict of a broadcast given which peers asked for the
// transaction (getdata) and which rejected it.
func DriveC15(t *tr.W, thorough bool) {
	rng := tr.Rng(1515)
	if os.Getenv("VERIF_SEARCH") != "" {
		thorough = false // search pass after a broken tie: at most three quick runs
	}
	vs := [][]string{
		{"accept", "reject-nogetdata"}, // the suspected shape
		{"accept", "accept"},
		{"reject", "reject"},
		{"accept", "reject"},
		{"accept", "accept", "reject-nogetdata"},
		{"", "reject-nogetdata"},
	}
	for _, v := range vs {
		var bs []Behaviour
		for _, m := range v {
			bs = append(bs, Behaviour{Kind: "honest", Tx: m})
		}
		name := strings.Join(v, ",")
		sc := Scenario{Name: name, Len: 10 + rng.Intn(10), Peers: bs, Barrier: true}
		t.Case("c15 verdict npeers %d", len(bs))
		s, err := New(sc, rng, t.Op)
		if err != nil {
			t.Op("setup", "err "+err.Error())
			continue
		}
		peerLines(t, s)
		if err := s.Start(); err != nil {
			t.Op("start", "err "+err.Error())
			s.Cleanup()
			continue
		}
		ok := s.waitFor(6*time.Second, func(o Obs) bool { return s.converged(o) && len(o.Conn) == len(s.Peers) })
		t.Op("waitsync", map[bool]string{true: "ok", false: "timeout"}[ok])
		tx := testTx(rng)
		res := make(chan error, 1)
		go func() { res <- s.CS.SendTransaction(tx) }()
		select {
		case err := <-res:
			if err == nil {
				t.Op("sendtx", "ok")
			} else {
				t.Op("sendtx", "err")
				t.Line("# sendtx error: %s", sanitize(err.Error()))
			}
		case <-time.After(10 * time.Second):
			t.Op("sendtx", "HANG")
		}
		// what the scripted peers saw
		for i, p := range s.Peers {
			t.Op(fmt.Sprintf("saw %d", i), fmt.Sprintf("invtx %d", min1(atomic.LoadInt32(&p.GotInvTx))))
		}
		t.Hit("c15." + name)
		stopLine(t, s, name)
		s.Cleanup()
	}
	c15InvType(t, rng)
	c15Corpus(t, rng, thorough)
}

// c15InvType: peers that ask for the announced transaction with the OTHER tx inv type
// (InvTypeTx <-> InvTypeWitnessTx).  They have requested the transaction all the same, so they
// are replying peers: they must be served and must count in the verdict.  Both directions:
// the default announcement (witness) through SendTransaction, and a base-encoding broadcast
// (announces InvTypeTx) through the verif hook that calls sendTransaction with Encoding(Base).
func c15InvType(t *tr.W, rng *rand.Rand) {
	type mix struct {
		base  bool
		peers []Behaviour
	}
	acc := func(gd string) Behaviour { return Behaviour{Kind: "honest", Tx: "accept", GD: gd} }
	rej := func(gd string) Behaviour { return Behaviour{Kind: "honest", Tx: "reject", GD: gd} }
	mixes := []mix{
		{false, []Behaviour{acc("flip"), rej("")}},              // 1 of 2 repliers rejects: must succeed
		{true, []Behaviour{rej(""), acc("flip")}},               // the same with InvTypeTx announced
		{false, []Behaviour{rej("flip"), rej("flip"), acc("")}}, // 2 of 3 call it invalid: must fail
		{true, []Behaviour{acc("flip"), acc("flip"), rej("flip")}},
	}
	for _, m := range mixes {
		var names []string
		for _, b := range m.peers {
			names = append(names, b.Tx+"/"+b.GD)
		}
		enc := "witness"
		if m.base {
			enc = "base"
		}
		name := "invtype-" + enc + ":" + strings.Join(names, ",")
		sc := Scenario{Name: name, Len: 10 + rng.Intn(10), Peers: m.peers, Barrier: true}
		t.Case("c15 invtype %s npeers %d", enc, len(m.peers))
		s, err := New(sc, rng, t.Op)
		if err != nil {
			t.Op("setup", "err "+err.Error())
			continue
		}
		peerLines(t, s)
		if err := s.Start(); err != nil {
			t.Op("start", "err "+err.Error())
			s.Cleanup()
			continue
		}
		ok := s.waitFor(6*time.Second, func(o Obs) bool { return s.converged(o) && len(o.Conn) == len(s.Peers) })
		t.Op("waitsync", map[bool]string{true: "ok", false: "timeout"}[ok])
		tx := testTx(rng)
		res := make(chan error, 1)
		go func() {
			if m.base {
				res <- s.CS.VerifSendTransaction(tx, neutrino.Encoding(wire.BaseEncoding))
			} else {
				res <- s.CS.SendTransaction(tx)
			}
		}()
		select {
		case err := <-res:
			if err == nil {
				t.Op("sendtx", "ok")
			} else {
				t.Op("sendtx", "err")
				t.Line("# sendtx error: %s", sanitize(err.Error()))
			}
		case <-time.After(10 * time.Second):
			t.Op("sendtx", "HANG")
		}
		for i, p := range s.Peers {
			t.Op(fmt.Sprintf("saw %d", i), fmt.Sprintf("invtx %d gottx %d", min1(atomic.LoadInt32(&p.GotInvTx)), min1(atomic.LoadInt32(&p.GotTx))))
		}
		t.Hit("c15." + name)
		stopLine(t, s, name)
		s.Cleanup()
	}
}

// c15Corpus: the whole path reject message -> pushtx.ParseBroadcastError ->
// sendTransaction verdict -> Broadcaster.Broadcast -> rebroadcast on the next
// block, with scripted peers that answer a transaction with realistic btcd /
// bitcoind reject messages (package rejcorpus; each labelled by hand with its
// ground-truth class in the property's vocabulary).  The Lean driver evaluates
// the property on the labels: all repliers have it in their mempool (or accept)
// => SendTransaction succeeds and the tx is announced again after the next
// block; invalid share >= threshold => SendTransaction fails; a failed
// broadcast is not announced again.
func c15Corpus(t *tr.W, rng *rand.Rand, thorough bool) {
	pick := func(class, node string, dupOnly bool) rejcorpus.Entry {
		var es []rejcorpus.Entry
		for _, e := range rejcorpus.OfClass(class) {
			if (node == "" || e.Node == node) && (!dupOnly || e.Code == wire.RejectDuplicate) {
				es = append(es, e)
			}
		}
		return es[rng.Intn(len(es))]
	}
	acc := rejcorpus.Entry{Class: "accept"}
	mixes := [][]rejcorpus.Entry{
		{pick("mempool", "btcd", false), pick("mempool", "btcd", false)},
		{pick("invalid", "btcd", true), pick("invalid", "btcd", true), acc},
		{pick("mempool", "", false), acc, pick("mempool", "", false)},
		{pick("invalid", "", false), acc, acc},
		{pick("confirmed", "btcd", false), pick("confirmed", "", false)},
	}
	extra := 1 * min(tr.EnvInt("VERIF_BUDGET", 1), 3)
	if thorough {
		extra = 12 * tr.EnvInt("VERIF_BUDGET", 1)
	}
	classes := []string{"accept", "mempool", "mempool", "invalid", "invalid", "confirmed", "fee", "other"}
	for i := 0; i < extra; i++ {
		var m []rejcorpus.Entry
		for k := 2 + rng.Intn(3); k > 0; k-- {
			c := classes[rng.Intn(len(classes))]
			if c == "accept" {
				m = append(m, acc)
			} else {
				m = append(m, pick(c, "", false))
			}
		}
		mixes = append(mixes, m)
	}
	for _, m := range mixes {
		var bs []Behaviour
		var names []string
		for _, e := range m {
			if e.Class == "accept" {
				bs = append(bs, Behaviour{Kind: "honest", Tx: "accept"})
			} else {
				bs = append(bs, Behaviour{Kind: "honest", Tx: "reject-with", RejCode: e.Code, RejReason: e.Reason})
			}
			names = append(names, e.Class)
		}
		name := "corpus:" + strings.Join(names, ",")
		sc := Scenario{Name: name, Len: 10 + rng.Intn(10), Peers: bs, Barrier: true}
		t.Case("c15 corpus npeers %d", len(bs))
		s, err := New(sc, rng, t.Op)
		if err != nil {
			t.Op("setup", "err "+err.Error())
			continue
		}
		// fill the placeholders other than the transaction's own id now, so that the trace shows them
		for i, e := range m {
			if e.Class != "accept" {
				s.Peers[i].B.RejReason = rejcorpus.Render(e, rng, "%TX%")
			}
		}
		peerLines(t, s)
		if err := s.Start(); err != nil {
			t.Op("start", "err "+err.Error())
			s.Cleanup()
			continue
		}
		ok := s.waitFor(6*time.Second, func(o Obs) bool { return s.converged(o) && len(o.Conn) == len(s.Peers) })
		t.Op("waitsync", map[bool]string{true: "ok", false: "timeout"}[ok])
		tx := testTx(rng)
		for i, e := range m {
			if e.Class != "accept" {
				t.Op(fmt.Sprintf("label %d %s", i, e.Class), fmt.Sprintf("%s %s %s", e.Node, e.Code,
					strings.ReplaceAll(s.Peers[i].B.RejReason, "%TX%", tx.TxHash().String())))
				t.Hit("c15.corpus." + e.Class + "." + e.Node)
			}
		}
		res := make(chan error, 1)
		go func() { res <- s.CS.SendTransaction(tx) }()
		select {
		case err := <-res:
			if err == nil {
				t.Op("sendtx", "ok")
			} else {
				t.Op("sendtx", "err")
				t.Line("# sendtx error: %s", sanitize(err.Error()))
			}
		case <-time.After(10 * time.Second):
			t.Op("sendtx", "HANG")
		}
		// a new block: every pending transaction is announced again
		nt := s.W.Extend(s.W.Honest(), 1, "t")
		s.W.SetHonest(nt)
		t.Op("grow 1", fmt.Sprintf("honest %d:%s", nt.Height, nt.ID))
		s.announce(false)
		seen, start := false, time.Now()
		var connected time.Time
		for time.Since(start) < 5*time.Second && !seen {
			time.Sleep(10 * time.Millisecond)
			for _, p := range s.Peers {
				seen = seen || atomic.LoadInt32(&p.GotInvTx) >= 2
			}
			if connected.IsZero() {
				if s.converged(s.Observe()) {
					connected = time.Now()
				}
			} else if time.Since(connected) > 700*time.Millisecond {
				break
			}
		}
		t.Op("rebroadcast", map[bool]string{true: "seen", false: "not-seen"}[seen])
		t.Hit("c15." + name)
		stopLine(t, s, name)
		s.Cleanup()
	}
}

var hexRe = regexp.MustCompile(`[0-9a-f]{16,}`)

func sanitize(s string) string {
	s = hexRe.ReplaceAllString(s, "<hash>")
	return strings.ReplaceAll(s, "\n", " ")
}

// ---------------------------------------------------------------- C17 ----

type apiCall struct {
	name string
	f    func(s *Sim, blk *Blk, tx *wire.MsgTx)
}

var apiCalls = []apiCall{
	{"ConnectedCount", func(s *Sim, _ *Blk, _ *wire.MsgTx) { s.CS.ConnectedCount() }},
	{"Peers", func(s *Sim, _ *Blk, _ *wire.MsgTx) { s.CS.Peers() }},
	{"AddedNodeInfo", func(s *Sim, _ *Blk, _ *wire.MsgTx) { s.CS.AddedNodeInfo() }},
	{"OutboundGroupCount", func(s *Sim, _ *Blk, _ *wire.MsgTx) { s.CS.OutboundGroupCount("10.0.0.0") }},
	{"ForAllPeers", func(s *Sim, _ *Blk, _ *wire.MsgTx) { s.CS.ForAllPeers(func(*neutrino.ServerPeer) {}) }},
	{"IsBanned", func(s *Sim, _ *Blk, _ *wire.MsgTx) { s.CS.IsBanned("10.9.9.9:18444") }},
	{"BanPeer", func(s *Sim, _ *Blk, _ *wire.MsgTx) { s.CS.BanPeer("10.9.9.9:18444", banman.ExceededBanThreshold) }},
	{"SendTransaction", func(s *Sim, _ *Blk, tx *wire.MsgTx) { s.CS.SendTransaction(tx) }},
	{"GetBlock", func(s *Sim, b *Blk, _ *wire.MsgTx) { s.CS.GetBlock(b.Hash) }},
	{"GetCFilter", func(s *Sim, b *Blk, _ *wire.MsgTx) {
		// only for blocks at or below the filter-header tip: above it the call builds a
		// malformed request (see the deterministic probe getcfilter-above-filter-tip)
		if bs, err := s.CS.BestBlock(); err != nil || bs.Height < b.Height {
			return
		}
		s.CS.GetCFilter(b.Hash, wire.GCSFilterRegular)
	}},
	{"GetUtxo", func(s *Sim, b *Blk, _ *wire.MsgTx) {
		cb := b.Msg.Transactions[0]
		s.CS.GetUtxo(
			neutrino.WatchInputs(neutrino.InputWithScript{
				OutPoint: wire.OutPoint{Hash: cb.TxHash(), Index: 0}, PkScript: cb.TxOut[0].PkScript}),
			neutrino.StartBlock(&headerfs.BlockStamp{Height: b.Height, Hash: b.Hash}),
		)
	}},
}

// DriveC17: API calls in flight while Stop is called; every call must return
// within 3 s after Stop has returned, Stop itself within 15 s; afterwards the
// data directory is reopened and checked.
func DriveC17(t *tr.W, thorough bool) {
	rng := tr.Rng(1717)
	c17AboveTip(t, rng)
	c17StopBehindGetCFilter(t, rng)
	c17StopDuringRebroadcast(t, rng)
	c17RescanUpdateParked(t, rng)
	c17StopDuringReorg(t, rng)
	c17StopAfterCheckpointedSync(t, rng)
	iters := 4 * tr.EnvInt("VERIF_BUDGET", 1)
	if thorough {
		iters *= 4
	}
	for it := 0; it < iters; it++ {
		peers := []Behaviour{honest(), honest()}
		if it%2 == 1 {
			peers = []Behaviour{{Kind: "silent"}, honest()}
		}
		l := 200 + rng.Intn(1200)
		delay := time.Duration(rng.Intn(250)) * time.Millisecond
		sc := Scenario{Name: fmt.Sprintf("stop-%d", it), Len: l, Peers: peers, Parallel: true}
		t.Case("c17 stop len %d npeers %d", l, len(peers))
		s, err := New(sc, rng, t.Op)
		if err != nil {
			t.Op("setup", "err "+err.Error())
			continue
		}
		peerLines(t, s)
		if err := s.Start(); err != nil {
			t.Op("start", "err "+err.Error())
			s.Cleanup()
			continue
		}
		blk := s.W.Honest().Ancestor(1 + int32(rng.Intn(5)))
		tx := testTx(rng)
		var stopped int32
		type slot struct {
			name   string
			calls  int32
			exited int32
		}
		var slots []*slot
		var wg sync.WaitGroup
		for _, c := range apiCalls {
			for k := 0; k < 2; k++ {
				sl := &slot{name: c.name}
				slots = append(slots, sl)
				wg.Add(1)
				go func(c apiCall, sl *slot) {
					defer wg.Done()
					defer atomic.StoreInt32(&sl.exited, 1)
					for atomic.LoadInt32(&stopped) == 0 {
						c.f(s, blk, tx)
						atomic.AddInt32(&sl.calls, 1)
						// a caller that gets an immediate answer must not spin: the probe is
						// about calls racing with Stop, not about starving the scheduler
						time.Sleep(200 * time.Microsecond)
					}
					// one more call after Stop has returned: must come back at once
					c.f(s, blk, tx)
					atomic.AddInt32(&sl.calls, 1)
				}(c, sl)
			}
		}
		time.Sleep(delay)
		o := s.Observe()
		t.Line("# before stop: %s", o.String())
		d := s.Stop()
		atomic.StoreInt32(&stopped, 1)
		if d < 0 {
			t.Op("stop", "HANG")
			fmt.Fprintf(os.Stderr, "netsim: Stop hung\n%s\n", s.HangDump)
		} else {
			t.Op("stop", "ok")
			t.Line("# stop took %d ms", d.Milliseconds())
		}
		done := make(chan struct{})
		go func() { wg.Wait(); close(done) }()
		select {
		case <-done:
		case <-time.After(3 * time.Second):
		}
		hung := map[string]int{}
		total := map[string]int{}
		for _, sl := range slots {
			total[sl.name] += int(atomic.LoadInt32(&sl.calls))
			if atomic.LoadInt32(&sl.exited) == 0 {
				hung[sl.name]++
			}
		}
		names := make([]string, 0, len(total))
		for n := range total {
			names = append(names, n)
		}
		sort.Strings(names)
		anyHung := false
		for _, n := range names {
			t.Op("call "+n, fmt.Sprintf("hung %d", hung[n]))
			t.Stats["c17.calls."+n] += total[n]
			if hung[n] > 0 {
				anyHung = true
				t.Hit("c17.hung." + n)
			}
		}
		if anyHung || d < 0 {
			dump := Goroutines()
			if d < 0 {
				dump = s.HangDump
			}
			cs := fmt.Sprintf("%p", s.CS)
			for _, g := range strings.Split(dump, "\n\n") {
				if !strings.Contains(g, "(*ChainService)") || !strings.Contains(g, "("+cs) {
					continue
				}
				if !strings.Contains(g, "DriveC17.func1") && !strings.Contains(g, "(*ChainService).Stop") &&
					!strings.Contains(g, "batchManager") {
					continue
				}
				ls := strings.Split(g, "\n")
				n := 0
				for _, l := range ls {
					l = strings.TrimSpace(l)
					if strings.HasPrefix(l, "/") {
						// keep file:line of repo frames only
						if j := strings.Index(l, "/repo/"); j >= 0 {
							t.Line("# hang-stack     at %s", strings.Fields(l[j+6:])[0])
						}
						continue
					}
					if strings.Contains(l, "internal/sync") || strings.Contains(l, "sync.(*Mutex)") {
						continue
					}
					if i := strings.LastIndex(l, "("); i > 0 && !strings.HasPrefix(l, "goroutine") && !strings.HasPrefix(l, "created by") {
						l = l[:i]
					}
					t.Line("# hang-stack %s", l)
					if n++; n > 10 {
						break
					}
				}
				t.Line("# hang-stack --")
			}
		}
		// reopen the data directory with a fresh ChainService
		if d >= 0 {
			if err := s.reopen(); err != nil {
				t.Op("reopen", "err")
				t.Line("# reopen error: %s", sanitize(err.Error()))
			} else {
				o := s.Observe0()
				t.Op("reopen", o+" "+s.chainCheck())
				s.DB.Close()
			}
		}
		t.Hit("c17.iter")
		s.Cleanup()
	}
}

// timed runs f with a watchdog; it reports whether f returned and lets the
// caller wait for a late return.
func timed(d time.Duration, f func()) (returned bool, done chan struct{}) {
	done = make(chan struct{})
	go func() { f(); close(done) }()
	select {
	case <-done:
		return true, done
	case <-time.After(d):
		return false, done
	}
}

func late(done chan struct{}, d time.Duration) bool {
	select {
	case <-done:
		return true
	case <-time.After(d):
		return false
	}
}

// c17AboveTip: block headers are synced, filter headers are not (the only peer
// does not serve them).  GetCFilter for a stored block above the filter-header
// tip must fail promptly; instead it sends `getcfilters start=h stop=<block at
// the filter tip>` (start above stop), which no peer can answer, and waits for
// the retries to run out while holding the filter mutex.
func c17AboveTip(t *tr.W, rng *rand.Rand) {
	l := 30 + rng.Intn(20)
	sc := Scenario{Name: "getcfilter-above-filter-tip", Len: l, Peers: []Behaviour{{Kind: "noCF"}}}
	t.Case("c17 getcfilter-above-filter-tip len %d npeers 1", l)
	s, err := New(sc, rng, t.Op)
	if err != nil {
		t.Op("setup", "err "+err.Error())
		return
	}
	defer s.Cleanup()
	peerLines(t, s)
	if err := s.Start(); err != nil {
		t.Op("start", "err "+err.Error())
		return
	}
	want := fmt.Sprintf("%d:t%d", l, l)
	ok := s.waitFor(6*time.Second, func(o Obs) bool { return o.BTip == want })
	t.Op("waitheaders", map[bool]string{true: "ok", false: "timeout"}[ok])
	blk := s.W.Honest().Ancestor(1)
	ret, done := timed(3*time.Second, func() { s.CS.GetCFilter(blk.Hash, wire.GCSFilterRegular) })
	t.Op("call GetCFilter", map[bool]string{true: "returned", false: "HANG"}[ret])
	d := s.Stop()
	if d < 0 {
		t.Op("stop", "HANG")
	} else {
		t.Op("stop", "ok")
		t.Line("# stop took %d ms", d.Milliseconds())
	}
	if !ret {
		n := 1
		if late(done, 3*time.Second) {
			n = 0
		}
		t.Op("call GetCFilter-after-stop", fmt.Sprintf("hung %d", n))
	}
	t.Hit("c17.above-tip")
}

// c17StopBehindGetCFilter: fully synced against peers that do not answer
// getcfilters.  One GetCFilter is in flight (it holds the filter mutex while its
// query is retried), a GetUtxo scan is waiting for that mutex; then Stop.
func c17StopBehindGetCFilter(t *tr.W, rng *rand.Rand) {
	l := 30 + rng.Intn(20)
	sc := Scenario{Name: "stop-blocked-behind-getcfilter", Len: l, Barrier: true,
		Peers: []Behaviour{{Kind: "noCFilters"}, {Kind: "noCFilters"}}}
	t.Case("c17 stop-blocked-behind-getcfilter len %d npeers 2", l)
	s, err := New(sc, rng, t.Op)
	if err != nil {
		t.Op("setup", "err "+err.Error())
		return
	}
	defer s.Cleanup()
	peerLines(t, s)
	if err := s.Start(); err != nil {
		t.Op("start", "err "+err.Error())
		return
	}
	ok := s.waitFor(6*time.Second, s.converged)
	t.Op("waitsync", map[bool]string{true: "ok", false: "timeout"}[ok])
	b5 := s.W.Honest().Ancestor(5)
	b3 := s.W.Honest().Ancestor(3)
	_, doneF := timed(time.Millisecond, func() { s.CS.GetCFilter(b5.Hash, wire.GCSFilterRegular) })
	time.Sleep(100 * time.Millisecond)
	_, doneU := timed(time.Millisecond, func() { apiCalls[len(apiCalls)-1].f(s, b3, nil) })
	time.Sleep(200 * time.Millisecond)
	d := s.Stop()
	if d < 0 {
		t.Op("stop", "HANG")
		for _, g := range strings.Split(s.HangDump, "\n\n") {
			if strings.Contains(g, "(*ChainService).Stop") || strings.Contains(g, "batchManager") ||
				(strings.Contains(g, "(*ChainService).GetCFilter") && strings.Contains(g, "[select")) {
				n := 0
				for _, l := range strings.Split(g, "\n") {
					l = strings.TrimSpace(l)
					if strings.HasPrefix(l, "/") {
						if j := strings.Index(l, "/repo/"); j >= 0 {
							t.Line("# hang-stack     at %s", strings.Fields(l[j+6:])[0])
						}
						continue
					}
					if strings.Contains(l, "internal/sync") || strings.Contains(l, "sync.(*Mutex)") {
						continue
					}
					if i := strings.LastIndex(l, "("); i > 0 && !strings.HasPrefix(l, "goroutine") && !strings.HasPrefix(l, "created by") {
						l = l[:i]
					}
					t.Line("# hang-stack %s", l)
					if n++; n > 8 {
						break
					}
				}
				t.Line("# hang-stack --")
			}
		}
	} else {
		t.Op("stop", "ok")
		t.Line("# stop took %d ms", d.Milliseconds())
		f, u := 0, 0
		if !late(doneF, 3*time.Second) {
			f = 1
		}
		if !late(doneU, 3*time.Second) {
			u = 1
		}
		t.Op("call GetCFilter", fmt.Sprintf("hung %d", f))
		t.Op("call GetUtxo", fmt.Sprintf("hung %d", u))
	}
	t.Hit("c17.stop-behind-getcfilter")
}

// Observe0: the tips of a ChainService that has not been started.
func (s *Sim) Observe0() string {
	var best, btip, ftip string
	if bs, err := s.CS.BestBlock(); err != nil {
		best = "err"
	} else {
		best = fmt.Sprintf("%d:%s", bs.Height, s.W.BlockID(bs.Hash))
	}
	if fh, h, err := s.CS.RegFilterHeaders.ChainTip(); err != nil {
		ftip = "err"
	} else {
		ftip = fmt.Sprintf("%d:%s", h, s.W.FilterID(*fh))
	}
	if hdr, h, err := s.CS.BlockHeaders.ChainTip(); err != nil {
		btip = "err"
	} else {
		btip = fmt.Sprintf("%d:%s", h, s.W.BlockID(hdr.BlockHash()))
	}
	return fmt.Sprintf("best %s btip %s ftip %s", best, btip, ftip)
}

// c17StopDuringRebroadcast: a transaction has been accepted; a new block
// triggers its rebroadcast; Stop is called while that rebroadcast's broadcast
// is in flight, and only then do the peers answer: they ask for the
// transaction and reject it as already in the chain ("transaction already
// exists").  The rebroadcast goroutine has to hand the confirmation to a
// handler that has already quit; Stop must still return.
func c17StopDuringRebroadcast(t *tr.W, rng *rand.Rand) {
	l := 20 + rng.Intn(20)
	sc := Scenario{Name: "stop-during-rebroadcast-confirmed", Len: l, Barrier: true,
		Peers: []Behaviour{{Kind: "honest", Tx: "confirm-after-release"}, {Kind: "honest", Tx: "confirm-after-release"}}}
	t.Case("c17 stop-during-rebroadcast-confirmed len %d npeers 2", l)
	s, err := New(sc, rng, t.Op)
	if err != nil {
		t.Op("setup", "err "+err.Error())
		return
	}
	defer s.Cleanup()
	peerLines(t, s)
	if err := s.Start(); err != nil {
		t.Op("start", "err "+err.Error())
		return
	}
	ok := s.waitFor(6*time.Second, func(o Obs) bool { return s.converged(o) && len(o.Conn) == len(s.Peers) })
	t.Op("waitsync", map[bool]string{true: "ok", false: "timeout"}[ok])
	tx := testTx(rng)
	ret, _ := timed(5*time.Second, func() { s.CS.SendTransaction(tx) })
	t.Op("call SendTransaction", map[bool]string{true: "returned", false: "HANG"}[ret])
	// a new block: the broadcaster rebroadcasts the pending transaction
	nt := s.W.Extend(s.W.Honest(), 1, "t")
	s.W.SetHonest(nt)
	t.Op("grow 1", fmt.Sprintf("honest %d:%s", nt.Height, nt.ID))
	s.announce(false)
	seen := false
	for i := 0; i < 500 && !seen; i++ {
		time.Sleep(10 * time.Millisecond)
		seen = atomic.LoadInt32(&s.Peers[0].GotInvTx) >= 2 || atomic.LoadInt32(&s.Peers[1].GotInvTx) >= 2
	}
	t.Op("rebroadcast", map[bool]string{true: "announced", false: "not-reached"}[seen])
	// Stop is called; 30 ms later the peers' answers arrive
	go func() {
		time.Sleep(30 * time.Millisecond)
		for _, p := range s.Peers {
			close(p.Release)
		}
	}()
	d := s.Stop()
	if d < 0 {
		t.Op("stop", "HANG")
		hangStacks(t, s.HangDump, "(*ChainService).Stop", "(*Broadcaster).rebroadcast", "(*Broadcaster).Stop")
	} else {
		t.Op("stop", "ok")
		t.Line("# stop took %d ms; peers saw the transaction %d/%d times", d.Milliseconds(), s.Peers[0].GotTx, s.Peers[1].GotTx)
	}
	t.Hit("c17.stop-during-rebroadcast")
}

// hangStacks writes the goroutines of a dump whose stack mentions one of the
// needles as `# hang-stack` comment lines (function names and repo file:line).
func hangStacks(t *tr.W, dump string, needles ...string) {
	for _, g := range strings.Split(dump, "\n\n") {
		hit := false
		for _, n := range needles {
			hit = hit || strings.Contains(g, n)
		}
		if !hit {
			continue
		}
		n := 0
		for _, l := range strings.Split(g, "\n") {
			l = strings.TrimSpace(l)
			if strings.HasPrefix(l, "/") {
				if j := strings.Index(l, "/repo/"); j >= 0 {
					t.Line("# hang-stack     at %s", strings.Fields(l[j+6:])[0])
				}
				continue
			}
			if strings.Contains(l, "internal/sync") || strings.Contains(l, "sync.(*Mutex)") || l == "" {
				continue
			}
			if i := strings.LastIndex(l, "("); i > 0 && !strings.HasPrefix(l, "goroutine") && !strings.HasPrefix(l, "created by") {
				l = l[:i]
			}
			t.Line("# hang-stack %s", l)
			if n++; n > 8 {
				break
			}
		}
		t.Line("# hang-stack --")
	}
}

// c17RescanUpdateParked: the only peer never answers getcfilters.  A rescan is
// busy inside GetCFilter, Update calls are parked on its update channel, the
// owner has NOT closed the rescan's own quit channel; then the client stops.
// Stop makes the rescan's fetch fail and the rescan exit; every parked Update
// (and WaitForShutdown, and the error channel) must come back.
func c17RescanUpdateParked(t *tr.W, rng *rand.Rand) {
	l := 20 + rng.Intn(20)
	sc := Scenario{Name: "rescan-update-parked-at-stop", Len: l, Peers: []Behaviour{{Kind: "noCFilters"}}}
	t.Case("c17 rescan-update-parked-at-stop len %d npeers 1", l)
	s, err := New(sc, rng, t.Op)
	if err != nil {
		t.Op("setup", "err "+err.Error())
		return
	}
	defer s.Cleanup()
	peerLines(t, s)
	if err := s.Start(); err != nil {
		t.Op("start", "err "+err.Error())
		return
	}
	ok := s.waitFor(6*time.Second, s.converged)
	t.Op("waitsync", map[bool]string{true: "ok", false: "timeout"}[ok])
	b1 := s.W.Honest().Ancestor(1)
	script := b1.Msg.Transactions[0].TxOut[0].PkScript
	before := atomic.LoadInt32(&s.Peers[0].GotGetCFilters)
	// the rescan's own quit channel: a rescan must have one, but its owner does not
	// close it here - stopping the client is all that happens
	rsQuit := make(chan struct{})
	defer close(rsQuit)
	rs := neutrino.NewRescan(&neutrino.RescanChainSource{ChainService: s.CS},
		neutrino.StartBlock(&headerfs.BlockStamp{Height: 0, Hash: s.W.Genesis.Hash}),
		neutrino.WatchInputs(neutrino.InputWithScript{OutPoint: wire.OutPoint{Hash: b1.Msg.Transactions[0].TxHash()}, PkScript: script}),
		neutrino.NotificationHandlers(rpcclient.NotificationHandlers{
			OnFilteredBlockConnected: func(int32, *wire.BlockHeader, []*btcutil.Tx) {},
		}),
		neutrino.QuitChan(rsQuit),
	)
	errCh := rs.Start()
	busy := false
	for i := 0; i < 300 && !busy; i++ {
		time.Sleep(10 * time.Millisecond)
		busy = atomic.LoadInt32(&s.Peers[0].GotGetCFilters) > before
	}
	t.Op("rescan", map[bool]string{true: "in-GetCFilter", false: "not-reached"}[busy])
	nupd := 1 + rng.Intn(3)
	var dones []chan struct{}
	for i := 0; i < nupd; i++ {
		_, done := timed(time.Millisecond, func() {
			rs.Update(neutrino.AddInputs(neutrino.InputWithScript{OutPoint: wire.OutPoint{Index: 9}, PkScript: script}))
		})
		dones = append(dones, done)
	}
	time.Sleep(100 * time.Millisecond) // the Update calls reach the update channel
	d := s.Stop()
	if d < 0 {
		t.Op("stop", "HANG")
		hangStacks(t, s.HangDump, "(*ChainService).Stop")
	} else {
		t.Op("stop", "ok")
		t.Line("# stop took %d ms", d.Milliseconds())
	}
	hung := 0
	limit := time.After(3 * time.Second)
	for _, done := range dones {
		select {
		case <-done:
		case <-limit:
			hung++
			limit = time.After(time.Millisecond)
		}
	}
	t.Op("call Rescan.Update", fmt.Sprintf("hung %d", hung))
	if hung > 0 {
		hangStacks(t, Goroutines(), "(*Rescan).Update")
	}
	retE, _ := timed(3*time.Second, func() { <-errCh })
	t.Op("call Rescan.Start:errChan", map[bool]string{true: "hung 0", false: "hung 1"}[retE])
	retW, _ := timed(3*time.Second, rs.WaitForShutdown)
	t.Op("call Rescan.WaitForShutdown", map[bool]string{true: "hung 0", false: "hung 1"}[retW])
	t.Hit("c17.rescan-update-parked")
}

// c17StopDuringReorg: the client is synced and has a block subscriber; the peers deliver a heavier fork that
// branches off `depth` blocks below the tip, so the block handler rolls the chain back block by block and hands
// a Disconnected notification to the subscription manager for each.  Stop is called as soon as the subscriber
// sees the first of them: ChainService.Stop stops the subscription manager (the only reader of the block
// manager's notifications) before the block manager, i.e. in the middle of the roll-back.  Stop must return; if
// it does not, the observation names the function the block handler is parked in.
func c17StopDuringReorg(t *tr.W, rng *rand.Rand) {
	depth := 45 + rng.Intn(20)
	l := depth + 10 + rng.Intn(20)
	sc := Scenario{Name: "stop-during-reorg", Len: l, Barrier: true, Peers: []Behaviour{honest(), honest()}}
	t.Case("c17 stop-during-reorg len %d npeers 2 depth %d", l, depth)
	s, err := New(sc, rng, t.Op)
	if err != nil {
		t.Op("setup", "err "+err.Error())
		return
	}
	defer s.Cleanup()
	peerLines(t, s)
	if err := s.Start(); err != nil {
		t.Op("start", "err "+err.Error())
		return
	}
	ok := s.waitFor(6*time.Second, func(o Obs) bool { return s.converged(o) && len(o.Conn) == len(s.Peers) })
	t.Op("waitsync", map[bool]string{true: "ok", false: "timeout"}[ok])
	src := &neutrino.RescanChainSource{ChainService: s.CS}
	sub, err := src.Subscribe(0)
	if err != nil {
		t.Op("subscribe", "err")
		s.Stop()
		return
	}
	firstDisc := make(chan struct{}, 1)
	var ndisc int32
	subDone := make(chan struct{})
	go func() {
		defer close(subDone)
		for n := range sub.Notifications {
			if _, isDisc := n.(*blockntfns.Disconnected); isDisc {
				if atomic.AddInt32(&ndisc, 1) == 1 {
					firstDisc <- struct{}{}
				}
			}
		}
	}()
	tip := s.W.Honest()
	nt := s.W.Extend(tip.Ancestor(tip.Height-int32(depth)), depth+1, s.W.NextLetter())
	s.W.SetHonest(nt)
	t.Op(fmt.Sprintf("reorg %d %d", depth, depth+1), fmt.Sprintf("honest %d:%s", nt.Height, nt.ID))
	s.announce(false)
	seen := true
	select {
	case <-firstDisc:
	case <-time.After(6 * time.Second):
		seen = false
	}
	t.Op("first-disconnected", map[bool]string{true: "seen", false: "not-seen"}[seen])
	d := s.Stop()
	if d < 0 {
		site := "ChainService.Stop"
		for _, g := range strings.Split(s.HangDump, "\n\n") {
			if !strings.Contains(g, "(*blockManager).blockHandler") {
				continue
			}
			for _, ln := range strings.Split(g, "\n") {
				if strings.HasPrefix(ln, "github.com/lightninglabs/neutrino.") {
					f := strings.TrimPrefix(ln, "github.com/lightninglabs/neutrino.")
					if i := strings.LastIndex(f, "("); i > 0 {
						f = f[:i]
					}
					site = strings.NewReplacer("(*", "", ")", "").Replace(f)
					break
				}
			}
		}
		t.Op("stop", "HANG "+site)
		hangStacks(t, s.HangDump, "(*ChainService).Stop", "(*blockManager).blockHandler")
	} else {
		t.Op("stop", "ok")
		t.Line("# stop took %d ms; %d disconnected notifications were delivered before the subscription closed", d.Milliseconds(), atomic.LoadInt32(&ndisc))
		select {
		case <-subDone:
			t.Op("call Subscription.Notifications", "hung 0")
		case <-time.After(3 * time.Second):
			t.Op("call Subscription.Notifications", "hung 1")
		}
	}
	t.Hit("c17.stop-during-reorg")
}

// c17StopAfterCheckpointedSync: the checkpointed cfheaders query is the batch with an idle (progress) timeout;
// when it consists of several requests, every successful one but the last re-arms the batch's idle timer.  A client
// that syncs block and filter headers in step only ever asks for one request at a time (cfHandler reads the block
// tip once, right after the first headers message), so the probe restarts the client: the first run syncs block
// headers only (its one peer does not serve filters) and is stopped; the second run, on the same data directory,
// finds more than four checkpoint intervals of block headers and honest peers, and asks for all of them at once.
// Stop is called once the first two intervals have been committed (or the client has converged).
func c17StopAfterCheckpointedSync(t *tr.W, rng *rand.Rand) {
	l := 2*2*int(wire.CFCheckptInterval) + 50 + rng.Intn(200)
	sc := Scenario{Name: "stop-after-checkpointed-cfheaders", Len: l, ManualGate: true,
		Peers: []Behaviour{{Kind: "noCF"}, honest(), honest()}}
	t.Case("c17 stop-after-checkpointed-cfheaders len %d npeers 3", l)
	s, err := New(sc, rng, t.Op)
	if err != nil {
		t.Op("setup", "err "+err.Error())
		return
	}
	defer s.Cleanup()
	peerLines(t, s)
	if err := s.Start(); err != nil {
		t.Op("start", "err "+err.Error())
		return
	}
	want := fmt.Sprintf("%d:t%d", l, l)
	hdrs := s.waitFor(15*time.Second, func(o Obs) bool { return o.BTip == want })
	t.Op("waitheaders", map[bool]string{true: "ok", false: "timeout"}[hdrs])
	if d := s.Stop(); d < 0 {
		t.Op("stop", "HANG first-run")
		return
	}
	t.Op("restart", "-")
	atomic.StoreInt32(&s.closed, 0)
	if err := s.openWith(true); err != nil {
		t.Op("start", "err "+err.Error())
		return
	}
	// (the dial gates were all opened by Stop: every listed peer can be dialled now)
	if err := s.CS.Start(context.Background()); err != nil {
		t.Op("start", "err "+err.Error())
		return
	}
	reached := s.waitFor(20*time.Second, func(o Obs) bool {
		if s.converged(o) {
			return true
		}
		bs, err := s.CS.BestBlock()
		return err == nil && bs.Height >= 2*int32(wire.CFCheckptInterval)
	})
	t.Op("cfheaders", map[bool]string{true: "two-intervals-committed", false: "not-reached"}[reached])
	d := s.Stop()
	if d < 0 {
		site := "ChainService.Stop"
		for _, g := range strings.Split(s.HangDump, "\n\n") {
			if !strings.Contains(g, "(*ChainService).Stop") {
				continue
			}
			for _, ln := range strings.Split(g, "\n") {
				if strings.HasPrefix(ln, "github.com/lightninglabs/neutrino") {
					f := ln[strings.LastIndex(ln, "/")+1:]
					if i := strings.LastIndex(f, "("); i > 0 {
						f = f[:i]
					}
					site = strings.TrimPrefix(strings.NewReplacer("(*", "", ")", "").Replace(f), "neutrino.")
					break
				}
			}
		}
		t.Op("stop", "HANG "+site)
		hangStacks(t, s.HangDump, "(*ChainService).Stop")
	} else {
		t.Op("stop", "ok")
		t.Line("# stop took %d ms", d.Milliseconds())
	}
	t.Hit("c17.stop-after-checkpointed-cfheaders")
}
