package netsim

import (
	"fmt"
	"math/rand"
	"os"
	"time"

	"verifharness/tr"
)

func init() {
	tr.Register("net", DriveC04)
}

func honest() Behaviour { return Behaviour{Kind: "honest"} }

// scenarios of the C04 check.  rng picks lengths and the heights of the lies.
func scenariosC04(rng *rand.Rand, thorough bool) []Scenario {
	L := func() int { return 30 + rng.Intn(40) }
	sync := Event{Kind: "waitsync"}
	var out []Scenario
	add := func(sc Scenario) { out = append(out, sc) }

	grow := func(n int) Event { return Event{Kind: "grow", A: n} }
	reorg := func(d, n int) Event { return Event{Kind: "reorg", A: d, B: n} }
	sleep := func(ms int) Event { return Event{Kind: "sleep", A: ms} }
	ann := Event{Kind: "announce"}

	add(Scenario{Name: "honest1", Len: L(), Peers: []Behaviour{honest()}, Script: []Event{sync}})
	{
		l := L()
		add(Scenario{Name: "liarHeaders-pow-first", Len: l, Script: []Event{sync, ann, sleep(100)},
			Peers: []Behaviour{{Kind: "liarHeaders", H: 2 + rng.Intn(l-2), Variant: "pow"}, honest()}})
		l = L()
		add(Scenario{Name: "liarHeaders-unlinked-second", Len: l, Script: []Event{sync, ann, sleep(100)},
			Peers: []Behaviour{honest(), {Kind: "liarHeaders", H: 2 + rng.Intn(l-2), Variant: "unlinked"}}})
	}
	{
		d := 3 + rng.Intn(5)
		add(Scenario{Name: "lighterFork-first", Len: L(), Script: []Event{sleep(300), grow(1), sync, ann, sleep(100)},
			Peers: []Behaviour{{Kind: "lighterFork", H: d, N: d - 1 - rng.Intn(2)}, honest()}})
		d = 3 + rng.Intn(5)
		add(Scenario{Name: "lighterFork-second", Len: L(), Script: []Event{sync, ann, sleep(100), grow(1)},
			Peers: []Behaviour{honest(), {Kind: "lighterFork", H: d, N: d - 1}}})
	}
	{
		// both connected before the first header arrives; the liar is the sync peer
		l := L()
		add(Scenario{Name: "liarCFHeaders-initial", Len: l, Barrier: true, Script: []Event{sync, grow(1)},
			Peers: []Behaviour{{Kind: "liarCFHeaders", H: 1 + rng.Intn(l), Variant: "inconsistent"}, honest()}})
		// the lie is in the filter header of a block mined after the initial sync
		l = L()
		add(Scenario{Name: "liarCFHeaders-tip", Len: l, Script: []Event{sync, grow(2), sync, grow(1)},
			Peers: []Behaviour{honest(), {Kind: "liarCFHeaders", H: l + 1 + rng.Intn(2), Variant: "inconsistent"}}})
		// the liar is the only peer while the first filter headers are fetched; the honest peer connects right after
		l = L()
		add(Scenario{Name: "liarCFHeaders-alone", Len: l, HoldCF: true, Deadline: 3 * time.Second, Script: []Event{sleep(400), grow(1)},
			Peers: []Behaviour{{Kind: "liarCFHeaders", H: 1 + rng.Intn(l), Variant: "inconsistent"}, honest()}})
	}
	add(Scenario{Name: "noServices-cf-first", Len: L(), Script: []Event{sync},
		Peers: []Behaviour{{Kind: "noServices", Variant: "cf"}, honest()}})
	add(Scenario{Name: "noServices-witness-second", Len: L(), Script: []Event{sync, grow(1)},
		Peers: []Behaviour{honest(), {Kind: "noServices", Variant: "witness"}}})
	add(Scenario{Name: "garbage-first", Len: L(), Script: []Event{sync, grow(2)},
		Peers: []Behaviour{{Kind: "garbage"}, honest()}})
	add(Scenario{Name: "disconnect-first", Len: L(), Script: []Event{sync, grow(1)},
		Peers: []Behaviour{{Kind: "disconnectAt", H: 1 + rng.Intn(3)}, honest()}})
	add(Scenario{Name: "growth", Len: L(), Script: []Event{sync, grow(1), sync, grow(3), sync, grow(1)},
		Peers: []Behaviour{honest()}})
	{
		d := 1 + rng.Intn(3)
		add(Scenario{Name: "reorg", Len: L(), Script: []Event{sync, reorg(d, d+1+rng.Intn(2)), sync, grow(1)},
			Peers: []Behaviour{honest()}})
	}
	add(Scenario{Name: "honest2", Len: L(), Script: []Event{sync, grow(2), sync, reorg(1, 2)},
		Peers: []Behaviour{honest(), honest()}})
	{
		l := L()
		h := 1 + rng.Intn(l)
		add(Scenario{Name: "liarCFilter", Len: l, Script: []Event{sync, {Kind: "cfilter", A: h}},
			Peers: []Behaviour{{Kind: "liarCFilter", H: h}, honest()}})
	}
	{
		l := L()
		add(Scenario{Name: "liarCFHeaders-consistent", Len: l, Barrier: true, Script: []Event{sync, grow(1)},
			Peers: []Behaviour{honest(), {Kind: "liarCFHeaders", H: 2 + rng.Intn(l-1), Variant: "consistent"}}})
	}
	add(Scenario{Name: "silent-second", Len: L(), Script: []Event{sync, grow(1), sync, grow(1)},
		Peers: []Behaviour{honest(), {Kind: "silent"}}})
	add(Scenario{Name: "liarCFCheckpt-consistent", Len: 1000 + L(), Barrier: true, Script: []Event{sync, grow(1)},
		Peers: []Behaviour{honest(), {Kind: "liarCFCheckpt", H: 0, Variant: "consistent"}}})
	// false checkpoint, true filter headers: the client can tell nobody apart and never gets past it
	add(Scenario{Name: "liarCFCheckpt-only", Len: 1000 + L(), Barrier: true, Deadline: 4 * time.Second, Script: []Event{sleep(300)},
		Peers: []Behaviour{honest(), {Kind: "liarCFCheckpt", H: 0, Variant: "only"}}})
	if os.Getenv("NETSIM_SLOW") != "" {
		add(Scenario{Name: "silent-first", Len: L(), Deadline: 130 * time.Second, Script: []Event{sleep(500), grow(1)},
			Peers: []Behaviour{{Kind: "silent"}, honest()}})
		add(Scenario{Name: "emptyHeaders-first", Len: L(), Deadline: 130 * time.Second, Script: []Event{sleep(500), grow(1)},
			Peers: []Behaviour{{Kind: "emptyHeaders"}, honest()}})
	}
	return out
}

// DriveC04 runs the scenarios and writes one trace case per scenario.
func DriveC04(t *tr.W, thorough bool) {
	rng := tr.Rng(404)
	scs := scenariosC04(rng, thorough)
	if only := os.Getenv("NETSIM_ONLY"); only != "" {
		var f []Scenario
		for _, sc := range scs {
			if sc.Name == only {
				f = append(f, sc)
			}
		}
		scs = f
	}
	for _, sc := range scs {
		RunScenario(t, sc, rng)
	}
}

// RunScenario runs one scenario as one trace case.
func RunScenario(t *tr.W, sc Scenario, rng *rand.Rand) *Sim {
	t0 := time.Now()
	t.Case("c04 %s len %d npeers %d", sc.Name, sc.Len, len(sc.Peers))
	s, err := New(sc, rng, t.Op)
	if err != nil {
		t.Op("setup", "err "+err.Error())
		return nil
	}
	defer s.Cleanup()
	for i, p := range s.Peers {
		t.Op(fmt.Sprintf("peer %d %s", i, p.B), "-")
		t.Hit("peer." + p.B.Kind)
	}
	if err := s.Start(); err != nil {
		t.Op("start", "err "+err.Error())
		return nil
	}
	s.Run()
	d := s.Stop()
	if d < 0 {
		t.Op("stop", "HANG")
		fmt.Fprintf(os.Stderr, "netsim: Stop hung in scenario %s\n%s\n", sc.Name, Goroutines())
	} else {
		t.Op("stop", "ok")
	}
	t.Hit("scenarios")
	t.Stats["samples"] += s.nsamp
	for _, p := range s.Peers {
		t.Stats["msgs.getheaders"] += int(p.GotGetHeaders)
		t.Stats["msgs.getcfheaders"] += int(p.GotGetCFHeaders)
		t.Stats["msgs.getcfcheckpt"] += int(p.GotGetCFCheckpt)
		t.Stats["msgs.getcfilters"] += int(p.GotGetCFilters)
		t.Stats["msgs.getdata"] += int(p.GotGetData)
		t.Stats["sessions"] += int(p.Sessions)
	}
	t.Line("# scenario %s took %d ms, stop %d ms, %d samples", sc.Name, time.Since(t0).Milliseconds(), d.Milliseconds(), s.nsamp)
	return s
}
