package netsim

import (
	"fmt"
	"math/rand"
	"os"
	"time"

	"verifharness/tr"
)

func init() {
	tr.Register("net", DriveC04)
}

func honest() Behaviour { return Behaviour{Kind: "honest"} }

// scenarios of the C04 check.  rng picks lengths and the heights of the lies.
func scenariosC04(rng *rand.Rand, thorough bool) []Scenario {
	L := func() int { return 30 + rng.Intn(40) }
	sync := Event{Kind: "waitsync"}
	var out []Scenario
	add := func(sc Scenario) { out = append(out, sc) }

	add(Scenario{Name: "honest1", Len: L(), Peers: []Behaviour{honest()}, Script: []Event{sync}})
	{
		l := L()
		add(Scenario{Name: "liarHeaders-pow-first", Len: l, Script: []Event{sync},
			Peers: []Behaviour{{Kind: "liarHeaders", H: 2 + rng.Intn(l-2), Variant: "pow"}, honest()}})
	}
	return out
}

// DriveC04 runs the scenarios and writes one trace case per scenario.
func DriveC04(t *tr.W, thorough bool) {
	rng := tr.Rng(404)
	scs := scenariosC04(rng, thorough)
	if only := os.Getenv("NETSIM_ONLY"); only != "" {
		var f []Scenario
		for _, sc := range scs {
			if sc.Name == only {
				f = append(f, sc)
			}
		}
		scs = f
	}
	for _, sc := range scs {
		RunScenario(t, sc, rng)
	}
}

// RunScenario runs one scenario as one trace case.
func RunScenario(t *tr.W, sc Scenario, rng *rand.Rand) *Sim {
	t0 := time.Now()
	t.Case("%s len %d npeers %d", sc.Name, sc.Len, len(sc.Peers))
	s, err := New(sc, rng, t.Op)
	if err != nil {
		t.Op("setup", "err "+err.Error())
		return nil
	}
	defer s.Cleanup()
	for i, p := range s.Peers {
		t.Op(fmt.Sprintf("peer %d %s", i, p.B), "-")
		t.Hit("peer." + p.B.Kind)
	}
	if err := s.Start(); err != nil {
		t.Op("start", "err "+err.Error())
		return nil
	}
	s.Run()
	d := s.Stop()
	if d < 0 {
		t.Op("stop", "HANG")
		fmt.Fprintf(os.Stderr, "netsim: Stop hung in scenario %s\n%s\n", sc.Name, Goroutines())
	} else {
		t.Op("stop", "ok")
	}
	t.Hit("scenarios")
	t.Stats["samples"] += s.nsamp
	for _, p := range s.Peers {
		t.Stats["msgs.getheaders"] += int(p.GotGetHeaders)
		t.Stats["msgs.getcfheaders"] += int(p.GotGetCFHeaders)
		t.Stats["msgs.getcfcheckpt"] += int(p.GotGetCFCheckpt)
		t.Stats["msgs.getcfilters"] += int(p.GotGetCFilters)
		t.Stats["msgs.getdata"] += int(p.GotGetData)
		t.Stats["sessions"] += int(p.Sessions)
	}
	t.Line("# scenario %s took %d ms, stop %d ms, %d samples", sc.Name, time.Since(t0).Milliseconds(), d.Milliseconds(), s.nsamp)
	return s
}
