package netsim

import (
	"fmt"
	"math/rand"
	"os"
	"strings"
	"sync"
	"sync/atomic"
	"time"

	"github.com/btcsuite/btcd/wire/v2"
	"github.com/lightninglabs/neutrino"
	"verifharness/tr"
)

func init() {
	tr.Register("net", DriveC04)
}

func honest() Behaviour { return Behaviour{Kind: "honest"} }

// scenarios of the C04 check.  rng picks lengths and the heights of the lies.
func scenariosC04(rng *rand.Rand, thorough bool) []Scenario {
	L := func() int { return 30 + rng.Intn(40) }
	sync := Event{Kind: "waitsync"}
	var out []Scenario
	add := func(sc Scenario) { out = append(out, sc) }

	grow := func(n int) Event { return Event{Kind: "grow", A: n} }
	reorg := func(d, n int) Event { return Event{Kind: "reorg", A: d, B: n} }
	sleep := func(ms int) Event { return Event{Kind: "sleep", A: ms} }
	ann := Event{Kind: "announce"}

	add(Scenario{Name: "honest1", Len: L(), Peers: []Behaviour{honest()}, Script: []Event{sync}})
	{
		l := L()
		add(Scenario{Name: "liarHeaders-pow-first", Len: l, Script: []Event{sync, ann, sleep(100)},
			Peers: []Behaviour{{Kind: "liarHeaders", H: 2 + rng.Intn(l-2), Variant: "pow"}, honest()}})
		l = L()
		add(Scenario{Name: "liarHeaders-unlinked-second", Len: l, Script: []Event{sync, ann, sleep(100)},
			Peers: []Behaviour{honest(), {Kind: "liarHeaders", H: 2 + rng.Intn(l-2), Variant: "unlinked"}}})
	}
	{
		d := 3 + rng.Intn(5)
		add(Scenario{Name: "lighterFork-first", Len: L(), Script: []Event{sleep(300), grow(1), sync, ann, sleep(100)},
			Peers: []Behaviour{{Kind: "lighterFork", H: d, N: d - 1 - rng.Intn(2)}, honest()}})
		d = 3 + rng.Intn(5)
		add(Scenario{Name: "lighterFork-second", Len: L(), Script: []Event{sync, ann, sleep(100), grow(1)},
			Peers: []Behaviour{honest(), {Kind: "lighterFork", H: d, N: d - 1}}})
	}
	{
		// both connected before the first header arrives; the liar is the sync peer
		l := L()
		add(Scenario{Name: "liarCFHeaders-initial", Len: l, Barrier: true, Script: []Event{sync, grow(1)},
			Peers: []Behaviour{{Kind: "liarCFHeaders", H: 1 + rng.Intn(l), Variant: "inconsistent"}, honest()}})
		// the lie is in the filter header of a block mined after the initial sync
		l = L()
		add(Scenario{Name: "liarCFHeaders-tip", Len: l, Script: []Event{sync, grow(2), sync, grow(1)},
			Peers: []Behaviour{honest(), {Kind: "liarCFHeaders", H: l + 1 + rng.Intn(2), Variant: "inconsistent"}}})
		// the liar is the only peer while the first filter headers are fetched; the honest peer connects right after
		l = L()
		add(Scenario{Name: "liarCFHeaders-alone", Len: l, HoldCF: true, Deadline: 3 * time.Second, Script: []Event{sleep(400), grow(1)},
			Peers: []Behaviour{{Kind: "liarCFHeaders", H: 1 + rng.Intn(l), Variant: "inconsistent"}, honest()}})
	}
	add(Scenario{Name: "noServices-cf-first", Len: L(), Script: []Event{sync},
		Peers: []Behaviour{{Kind: "noServices", Variant: "cf"}, honest()}})
	add(Scenario{Name: "noServices-witness-second", Len: L(), Script: []Event{sync, grow(1)},
		Peers: []Behaviour{honest(), {Kind: "noServices", Variant: "witness"}}})
	add(Scenario{Name: "garbage-first", Len: L(), Script: []Event{sync, grow(2)},
		Peers: []Behaviour{{Kind: "garbage"}, honest()}})
	add(Scenario{Name: "disconnect-first", Len: L(), Script: []Event{sync, grow(1)},
		Peers: []Behaviour{{Kind: "disconnectAt", H: 1 + rng.Intn(3)}, honest()}})
	add(Scenario{Name: "growth", Len: L(), Script: []Event{sync, grow(1), sync, grow(3), sync, grow(1)},
		Peers: []Behaviour{honest()}})
	{
		d := 1 + rng.Intn(3)
		add(Scenario{Name: "reorg", Len: L(), Script: []Event{sync, reorg(d, d+1+rng.Intn(2)), sync, grow(1)},
			Peers: []Behaviour{honest()}})
	}
	add(Scenario{Name: "honest2", Len: L(), Script: []Event{sync, grow(2), sync, reorg(1, 2)},
		Peers: []Behaviour{honest(), honest()}})
	{
		l := L()
		h := 1 + rng.Intn(l)
		add(Scenario{Name: "liarCFilter", Len: l, Script: []Event{sync, {Kind: "cfilter", A: h}},
			Peers: []Behaviour{{Kind: "liarCFilter", H: h}, honest()}})
	}
	{
		l := L()
		add(Scenario{Name: "liarCFHeaders-consistent", Len: l, Barrier: true, Script: []Event{sync, grow(1)},
			Peers: []Behaviour{honest(), {Kind: "liarCFHeaders", H: 2 + rng.Intn(l-1), Variant: "consistent"}}})
	}
	add(Scenario{Name: "silent-second", Len: L(), Script: []Event{sync, grow(1), sync, grow(1)},
		Peers: []Behaviour{honest(), {Kind: "silent"}}})
	add(Scenario{Name: "liarCFCheckpt-consistent", Len: 1000 + L(), Barrier: true, Script: []Event{sync, grow(1)},
		Peers: []Behaviour{honest(), {Kind: "liarCFCheckpt", H: 0, Variant: "consistent"}}})
	// false checkpoint, true filter headers: the client can tell nobody apart and never gets past it
	add(Scenario{Name: "liarCFCheckpt-only", Len: 1000 + L(), Barrier: true, Deadline: 4 * time.Second, Script: []Event{sleep(300)},
		Peers: []Behaviour{honest(), {Kind: "liarCFCheckpt", H: 0, Variant: "only"}}})
	// --- the sync peer lies while an honest candidate is ALREADY connected, and nobody else joins ---
	{
		l := L()
		add(Scenario{Name: "liarSync-pow-midbatch", Len: l, Barrier: true, NoRedial: true, Deadline: 4 * time.Second, Script: []Event{sync, grow(1), sync},
			Peers: []Behaviour{{Kind: "liarHeaders", H: 3 + rng.Intn(l-4), Variant: "pow"}, honest()}})
		l = L()
		add(Scenario{Name: "liarSync-unlinked-first", Len: l, Barrier: true, NoRedial: true, Deadline: 4 * time.Second, Script: []Event{sync, grow(1), sync},
			Peers: []Behaviour{{Kind: "liarHeaders", H: 2, Variant: "unlinked"}, honest()}})
		// a block checkpoint below the lie: the first batch (up to the checkpoint) is accepted, the lie is in the second
		l = L()
		c := 10 + rng.Intn(l-20)
		add(Scenario{Name: "liarSync-after-checkpoint", Len: l, Barrier: true, NoRedial: true, Deadline: 4 * time.Second, Checkpts: []int{c}, Script: []Event{sync, grow(1), sync},
			Peers: []Behaviour{{Kind: "liarHeaders", H: c + 1 + rng.Intn(l-c-1), Variant: "pow"}, honest()}})
		// the sync peer is on a valid branch that does not contain the checkpointed block
		l = L()
		d := 6 + rng.Intn(4)
		add(Scenario{Name: "liarSync-checkpoint-mismatch", Len: l, Barrier: true, NoRedial: true, Deadline: 4 * time.Second, Checkpts: []int{l - d + 2 + rng.Intn(3)},
			Script: []Event{sync, grow(1), sync},
			Peers:  []Behaviour{{Kind: "lighterFork", H: d, N: d - 1}, honest()}})
	}
	// --- sync-peer bookkeeping around "current" ---
	{
		// a sync peer with a shorter view brings the client to "current"; only then does the honest peer
		// connect, with a longer chain that does not grow: it has to be asked at its arrival
		add(Scenario{Name: "laggingSync-then-honest", Len: L(), HoldCurrent: true, NoRedial: true, Deadline: 4 * time.Second,
			Script: []Event{sleep(200)},
			Peers:  []Behaviour{{Kind: "lagging", H: 2 + rng.Intn(5)}, honest()}})
		d := 3 + rng.Intn(4)
		add(Scenario{Name: "forkSync-then-honest", Len: L(), HoldCurrent: true, NoRedial: true, Deadline: 4 * time.Second,
			Script: []Event{sleep(200)},
			Peers:  []Behaviour{{Kind: "lighterFork", H: d, N: d - 1}, honest()}})
		// the sync peer leaves while the client is current; the honest peer stays and announces the next block
		add(Scenario{Name: "syncPeerLeaves-fresh", Len: L(), Barrier: true, NoRedial: true, Deadline: 4 * time.Second,
			Script: []Event{sync, {Kind: "drop", A: 0}, sleep(200), grow(1), sync},
			Peers:  []Behaviour{{Kind: "disconnectAt", H: 1 << 30}, honest()}})
		// the same, but the next block only comes when the tip is more than 24 hours old: the chain is built
		// with a tip 24 h minus a few seconds in the past, so that the client is current when the sync
		// peer leaves and no longer when the block is announced
		add(Scenario{Name: "syncPeerLeaves-oldTip", Len: L(), Barrier: true, NoRedial: true, Deadline: 5 * time.Second,
			TipAge: 24*time.Hour - 7*time.Second,
			Script: []Event{sync, {Kind: "drop", A: 0}, {Kind: "age"}, grow(1), sync},
			Peers:  []Behaviour{{Kind: "disconnectAt", H: 1 << 30}, honest()}})
	}
	// --- a header of the honest chain is too far in the future at first and valid later ---
	{
		// the honest tip is stamped 2 h 35 min ahead of the wall clock: refused.  Then four peers whose
		// clocks are an hour ahead connect: with five time samples the client's adjusted time moves
		// forward by an hour and the same header is valid.  The peers that served it while it was not
		// are dropped (and cannot redial); the last one serves it when it is.
		early := Behaviour{Kind: "disconnectAt", H: 1 << 30}
		skewed := Behaviour{Kind: "disconnectAt", H: 1 << 30, SkewMin: 60}
		add(Scenario{Name: "future-header-then-time-passes", Len: L(), FutureTipMin: 155, NoRedial: true, Deadline: 5 * time.Second,
			Script: []Event{sleep(200)},
			Peers:  []Behaviour{early, skewed, skewed, skewed, skewed, {Kind: "honest", SkewMin: 60}}})
	}
	// --- queue pressure: one peer floods junk block announcements while the honest sync peer announces a block ---
	add(Scenario{Name: "flood-inv-then-honest-block", Len: L(), Barrier: true, NoRedial: true, Deadline: 6 * time.Second,
		Script: []Event{sync, {Kind: "flood", A: 1, B: 4000}, {Kind: "flood", A: 2, B: 4000}, {Kind: "flood", A: 3, B: 4000},
			{Kind: "flood", A: 4, B: 4000}, {Kind: "flood", A: 5, B: 4000}, {Kind: "flood", A: 6, B: 4000},
			sleep(100), grow(1), {Kind: "drain", A: 1}, {Kind: "drain", A: 6}},
		Peers: []Behaviour{honest(), {Kind: "floodInv"}, {Kind: "floodInv"}, {Kind: "floodInv"}, {Kind: "floodInv"},
			{Kind: "floodInv"}, {Kind: "floodInv"}}})
	return out
}

// rec collects the trace lines of one scenario so that scenarios can run side
// by side (thorough tier) and still be written one case after the other.
type rec struct {
	header string
	lines  []string
	stats  map[string]int
}

func (r *rec) Op(op, obs string) { r.lines = append(r.lines, op+" => "+obs) }
func (r *rec) Line(format string, a ...any) {
	r.lines = append(r.lines, fmt.Sprintf(format, a...))
}
func (r *rec) Hit(k string)        { r.stats[k]++ }
func (r *rec) Add(k string, n int) { r.stats[k] += n }

func (r *rec) flush(t *tr.W) {
	t.Case("%s", r.header)
	for _, l := range r.lines {
		if op, obs, ok := strings.Cut(l, " => "); ok && !strings.HasPrefix(l, "#") {
			t.Op(op, obs)
		} else {
			t.Line("%s", l)
		}
	}
	for k, v := range r.stats {
		t.Stats[k] += v
	}
}

// randomMix: 3-5 peers with random behaviours (at least one honest), all
// connected before the first header flows, and a random script.
func randomMix(rng *rand.Rand, k int) Scenario {
	l := 30 + rng.Intn(40)
	n := 3 + rng.Intn(3)
	peers := make([]Behaviour, n)
	hon := rng.Intn(n)
	for i := range peers {
		if i == hon {
			peers[i] = honest()
			continue
		}
		switch rng.Intn(10) {
		case 0:
			peers[i] = honest()
		case 1:
			peers[i] = Behaviour{Kind: "liarHeaders", H: 2 + rng.Intn(l-2), Variant: "pow"}
		case 2:
			peers[i] = Behaviour{Kind: "liarHeaders", H: 2 + rng.Intn(l-2), Variant: "unlinked"}
		case 3:
			d := 3 + rng.Intn(5)
			peers[i] = Behaviour{Kind: "lighterFork", H: d, N: d - 1 - rng.Intn(2)}
		case 4:
			peers[i] = Behaviour{Kind: "liarCFHeaders", H: 1 + rng.Intn(l+3), Variant: "inconsistent"}
		case 5:
			peers[i] = Behaviour{Kind: "noServices", Variant: []string{"cf", "witness"}[rng.Intn(2)]}
		case 6:
			peers[i] = Behaviour{Kind: "garbage"}
		case 7:
			peers[i] = Behaviour{Kind: "disconnectAt", H: 1 + rng.Intn(6)}
		case 8:
			peers[i] = Behaviour{Kind: "liarCFilter", H: 1 + rng.Intn(l)}
		case 9:
			// no silent peers in the mixes: once an earlier sync peer is dropped a silent peer
			// (huge announced height) becomes the sync peer and only the 90-120 s stall
			// timeout removes it - covered by silent-first / silent-second
			peers[i] = Behaviour{Kind: "liarCFHeaders", H: 2 + rng.Intn(l-1), Variant: "consistent"}
		}
	}
	script := []Event{{Kind: "waitsync"}}
	for e, ne := 0, 2+rng.Intn(3); e < ne; e++ {
		switch rng.Intn(5) {
		case 0, 1:
			script = append(script, Event{Kind: "grow", A: 1 + rng.Intn(3)})
		case 2:
			d := 1 + rng.Intn(3)
			script = append(script, Event{Kind: "reorg", A: d, B: d + 1 + rng.Intn(2)})
		case 3:
			script = append(script, Event{Kind: "announce"}, Event{Kind: "sleep", A: 100})
		case 4:
			script = append(script, Event{Kind: "sleep", A: 50 + rng.Intn(300)})
		}
		if rng.Intn(2) == 0 {
			script = append(script, Event{Kind: "waitsync"})
		}
	}
	return Scenario{Name: fmt.Sprintf("mix-%d", k), Len: l, Peers: peers, Barrier: true, Script: script, Deadline: 15 * time.Second}
}

// DriveC04 runs the scenarios and writes one trace case per scenario.
func DriveC04(t *tr.W, thorough bool) {
	if thorough && os.Getenv("NETSIM_ONLY") == "" {
		driveC04Thorough(t)
		return
	}
	rng := tr.Rng(404)
	scs := scenariosC04(rng, thorough)
	if only := os.Getenv("NETSIM_ONLY"); only != "" {
		var f []Scenario
		for _, sc := range scs {
			if sc.Name == only {
				f = append(f, sc)
			}
		}
		scs = f
	}
	for _, sc := range scs {
		r := RunScenario(sc, rng.Int63())
		r.flush(t)
	}
	// best-effort end-to-end probe of the done-event / last-headers race (the deterministic version of both
	// orders is the bm-sync driver): on request only in the quick tier, always in the thorough tier
	if strings.HasPrefix(os.Getenv("NETSIM_ONLY"), "late-headers") {
		RunLateHeaders(rng.Int63(), true).flush(t)
		RunLateHeaders(rng.Int63(), false).flush(t)
	}
}

// driveC04Thorough: the quick set under three parameter seeds, random mixes,
// and the two scenarios that need the peer library's 90-120 s stall timeout;
// four scenarios run side by side.
func driveC04Thorough(t *tr.W) {
	type job struct {
		sc   Scenario
		seed int64
		out  *rec
	}
	var jobs []*job
	slow := tr.Rng(4040)
	L := 30 + slow.Intn(30)
	jobs = append(jobs,
		&job{sc: Scenario{Name: "silent-first", Len: L, Deadline: 135 * time.Second, Script: []Event{{Kind: "sleep", A: 500}, {Kind: "grow", A: 1}},
			Peers: []Behaviour{{Kind: "silent"}, honest()}}, seed: slow.Int63()},
		&job{sc: Scenario{Name: "emptyHeaders-first", Len: L, Deadline: 135 * time.Second, Script: []Event{{Kind: "sleep", A: 500}, {Kind: "grow", A: 1}},
			Peers: []Behaviour{{Kind: "emptyHeaders"}, honest()}}, seed: slow.Int63()})
	nmix := 8 * tr.EnvInt("VERIF_BUDGET", 1)
	for sub := 0; sub < 3; sub++ {
		rng := tr.Rng(int64(404 + 1000*sub))
		for _, sc := range scenariosC04(rng, true) {
			sc.Name = fmt.Sprintf("%s.%d", sc.Name, sub)
			if sc.Deadline == 0 {
				sc.Deadline = 15 * time.Second
			}
			jobs = append(jobs, &job{sc: sc, seed: rng.Int63()})
		}
		for k := 0; k < nmix; k++ {
			jobs = append(jobs, &job{sc: randomMix(rng, sub*100+k), seed: rng.Int63()})
		}
	}
	sem := make(chan struct{}, 4)
	var wg sync.WaitGroup
	for _, j := range jobs {
		wg.Add(1)
		sem <- struct{}{}
		go func(j *job) {
			defer wg.Done()
			defer func() { <-sem }()
			j.out = RunScenario(j.sc, j.seed)
		}(j)
	}
	wg.Wait()
	for _, j := range jobs {
		j.out.flush(t)
	}
	for k := 0; k < 2; k++ {
		RunLateHeaders(slow.Int63(), true).flush(t)
		RunLateHeaders(slow.Int63(), false).flush(t)
	}
}

// RunLateHeaders: the only peer answers the first getheaders with one full batch
// and is dropped by the client (ServerPeer.Disconnect, what BanPeer and the
// handlers do) at the moment the batch has left the wire: its done-peer event and
// the batch reach the block handler from two goroutines, in either order
// (immediate: the disconnect is issued the instant the write returns; otherwise
// 50 ms later, so that the batch is certainly handled first).  Afterwards an
// honest peer connects.  Whatever the order, the client must end on the honest
// tip with a connected sync peer.
func RunLateHeaders(seed int64, immediate bool) *rec {
	t := &rec{stats: map[string]int{}}
	rng := rand.New(rand.NewSource(seed))
	l := 2000 + 20 + rng.Intn(40)
	name := map[bool]string{true: "late-headers-disconnect-at-once", false: "late-headers-disconnect-later"}[immediate]
	// peer 0 serves the honest chain but is dropped on purpose: it is not one of the peers that must stay connected
	sc := Scenario{Name: name, Len: l, ManualGate: true, NoRedial: true, Barrier: true, Deadline: 6 * time.Second,
		Peers: []Behaviour{{Kind: "disconnectAt", H: 1 << 30}, honest()}}
	t.header = fmt.Sprintf("c04 %s len %d npeers %d", sc.Name, sc.Len, len(sc.Peers))
	s, err := New(sc, rng, t.Op)
	if err != nil {
		t.Op("setup", "err "+err.Error())
		return t
	}
	defer s.Cleanup()
	for i, p := range s.Peers {
		t.Op(fmt.Sprintf("peer %d %s", i, p.B), "-")
	}
	// peer 0 holds its headers answer until we have got hold of the client's handle of it
	hold := make(chan struct{})
	s.Peers[0].barrier = hold
	var once sync.Once
	var sp0 *neutrino.ServerPeer
	s.Peers[0].AfterWrite = func(m wire.Message) {
		if h, ok := m.(*wire.MsgHeaders); ok && len(h.Headers) > 0 {
			once.Do(func() {
				if !immediate {
					time.Sleep(50 * time.Millisecond)
				}
				sp0.Disconnect()
			})
		}
	}
	if err := s.Start(); err != nil {
		t.Op("start", "err "+err.Error())
		return t
	}
	s.waitFor(3*time.Second, func(o Obs) bool { return contains(o.Conn, 0) })
	for _, sp := range s.peersTimed() {
		if sp.Addr() == s.Peers[0].Addr {
			sp0 = sp
		}
	}
	if sp0 == nil {
		t.Op("setup", "err peer 0 did not connect")
		s.Stop()
		return t
	}
	close(hold)
	s.waitFor(3*time.Second, func(o Obs) bool { return !contains(o.Conn, 0) })
	t.Op("dropped 0", "-")
	s.waitFor(200*time.Millisecond, func(Obs) bool { return false })
	s.OpenGate(1)
	s.Run()
	if d := s.Stop(); d < 0 {
		t.Op("stop", "HANG")
	} else {
		t.Op("stop", "ok")
	}
	t.Hit("scenarios")
	t.Add("samples", s.nsamp)
	return t
}

// RunScenario runs one scenario and returns its trace case.
func RunScenario(sc Scenario, seed int64) *rec {
	t := &rec{stats: map[string]int{}}
	rng := rand.New(rand.NewSource(seed))
	t0 := time.Now()
	t.header = fmt.Sprintf("c04 %s len %d npeers %d", sc.Name, sc.Len, len(sc.Peers))
	s, err := New(sc, rng, t.Op)
	if err != nil {
		t.Op("setup", "err "+err.Error())
		return t
	}
	defer s.Cleanup()
	for i, p := range s.Peers {
		t.Op(fmt.Sprintf("peer %d %s", i, p.B), "-")
		t.Hit("peer." + p.B.Kind)
	}
	if err := s.Start(); err != nil {
		t.Op("start", "err "+err.Error())
		return t
	}
	s.Run()
	d := s.Stop()
	if d < 0 {
		t.Op("stop", "HANG")
		fmt.Fprintf(os.Stderr, "netsim: Stop hung in scenario %s\n%s\n", sc.Name, s.HangDump)
	} else {
		t.Op("stop", "ok")
	}
	t.Hit("scenarios")
	t.Add("samples", s.nsamp)
	for _, p := range s.Peers {
		t.Add("msgs.getheaders", int(atomic.LoadInt32(&p.GotGetHeaders)))
		t.Add("msgs.getcfheaders", int(atomic.LoadInt32(&p.GotGetCFHeaders)))
		t.Add("msgs.getcfcheckpt", int(atomic.LoadInt32(&p.GotGetCFCheckpt)))
		t.Add("msgs.getcfilters", int(atomic.LoadInt32(&p.GotGetCFilters)))
		t.Add("msgs.getdata", int(atomic.LoadInt32(&p.GotGetData)))
		t.Add("sessions", int(atomic.LoadInt32(&p.Sessions)))
	}
	t.Line("# scenario %s took %d ms, stop %d ms, %d samples", sc.Name, time.Since(t0).Milliseconds(), d.Milliseconds(), s.nsamp)
	return t
}
