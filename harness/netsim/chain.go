// Package netsim is the in-process network simulation: a REAL
// neutrino.ChainService (real connection manager, peer library, block manager,
// query stack, header stores on bbolt) whose custom Dialer hands out one end of
// a net.Pipe; the other end is served by a scripted full node written against
// btcd's wire package.  Ground truth (blocks with real transactions, true
// BIP158 filters, the true filter-header chain, alternative branches) is
// generated per scenario.
package netsim

import (
	"encoding/binary"
	"fmt"
	"math/big"
	"math/rand"
	"sync"
	"time"

	"github.com/btcsuite/btcd/address/v2"
	"github.com/btcsuite/btcd/blockchain"
	"github.com/btcsuite/btcd/btcutil/v2"
	"github.com/btcsuite/btcd/btcutil/v2/gcs"
	"github.com/btcsuite/btcd/btcutil/v2/gcs/builder"
	"github.com/btcsuite/btcd/chaincfg/v2"
	"github.com/btcsuite/btcd/chainhash/v2"
	"github.com/btcsuite/btcd/txscript/v2"
	"github.com/btcsuite/btcd/wire/v2"
)

// Blk is one ground-truth block together with everything an honest full node
// can serve about it.
type Blk struct {
	ID      string // t<h> (initial chain), a<h>, b<h>, ... (alternative branches)
	Height  int32
	Parent  *Blk
	Msg     *wire.MsgBlock
	Hash    chainhash.Hash
	Filter  *gcs.Filter
	FBytes  []byte
	FHash   chainhash.Hash // filter hash
	FHeader chainhash.Hash // filter header (commits to the parent's)
	Valid   bool           // false: a liar's fabricated header (no body)
	outs    []spendable    // outputs of this block that later blocks may spend
}

type spendable struct {
	op     wire.OutPoint
	script []byte
	pub    []byte
	value  int64
}

// World is the ground-truth block tree.
type World struct {
	mu      sync.RWMutex
	Params  chaincfg.Params
	Genesis *Blk
	byHash  map[chainhash.Hash]*Blk
	byFHdr  map[chainhash.Hash]*Blk
	rng     *rand.Rand
	letters int // alternative branches handed out so far
	honest  *Blk
	target  *big.Int

	// FirstBlockTime, when set, is the timestamp of block 1 of every branch
	// leaving genesis (default: one hour before now).
	FirstBlockTime time.Time

	nextTS *time.Time // one-shot timestamp of the next block mined (ExtendAt)
}

// Params returns a private copy of the regression-test parameters (cheap
// proof of work, whole-second timestamps).  Checkpoints may be set on it.
func simParams() chaincfg.Params {
	p := chaincfg.RegressionNetParams
	p.Checkpoints = nil
	p.DNSSeeds = nil
	return p
}

func NewWorld(rng *rand.Rand) *World {
	p := simParams()
	w := &World{Params: p, byHash: map[chainhash.Hash]*Blk{}, byFHdr: map[chainhash.Hash]*Blk{}, rng: rng}
	w.target = blockchain.CompactToBig(p.PowLimitBits)
	g := &Blk{ID: "t0", Height: 0, Msg: p.GenesisBlock, Hash: *p.GenesisHash, Valid: true}
	f, err := builder.BuildBasicFilter(p.GenesisBlock, nil)
	if err != nil {
		panic(err)
	}
	g.setFilter(f, p.GenesisBlock.Header.PrevBlock)
	w.Genesis = g
	w.honest = g
	w.index(g)
	return w
}

func (b *Blk) setFilter(f *gcs.Filter, prev chainhash.Hash) {
	b.Filter = f
	var err error
	if b.FBytes, err = f.NBytes(); err != nil {
		panic(err)
	}
	if b.FHash, err = builder.GetFilterHash(f); err != nil {
		panic(err)
	}
	if b.FHeader, err = builder.MakeHeaderForFilter(f, prev); err != nil {
		panic(err)
	}
}

func (w *World) index(b *Blk) {
	w.byHash[b.Hash] = b
	if b.Valid {
		w.byFHdr[b.FHeader] = b
	}
}

func (w *World) Lookup(h chainhash.Hash) *Blk {
	w.mu.RLock()
	defer w.mu.RUnlock()
	return w.byHash[h]
}

// Honest is the tip of the most-work valid chain at this moment.
func (w *World) Honest() *Blk {
	w.mu.RLock()
	defer w.mu.RUnlock()
	return w.honest
}

// NextLetter hands out the name of the next alternative branch.
func (w *World) NextLetter() string {
	w.mu.Lock()
	defer w.mu.Unlock()
	l := string(rune('a' + w.letters))
	w.letters++
	return l
}

// Ancestor of b at height h (nil if h is above b).
func (b *Blk) Ancestor(h int32) *Blk {
	for b != nil && b.Height > h {
		b = b.Parent
	}
	if b == nil || b.Height != h {
		return nil
	}
	return b
}

// Path returns the chain genesis..b.
func (b *Blk) Path() []*Blk {
	out := make([]*Blk, b.Height+1)
	for c := b; c != nil; c = c.Parent {
		out[c.Height] = c
	}
	return out
}

func (w *World) randKeyScript() (pub, script []byte) {
	// A syntactically valid compressed public key is all the client ever
	// looks at (it derives the P2WPKH script from the witness).
	pub = make([]byte, 33)
	w.rng.Read(pub)
	pub[0] = 0x02 | (pub[0] & 1)
	h := address.Hash160(pub)
	script, err := txscript.NewScriptBuilder().AddOp(txscript.OP_0).AddData(h).Script()
	if err != nil {
		panic(err)
	}
	return pub, script
}

// mineOn builds, mines and indexes one valid block on top of parent.
func (w *World) mineOn(parent *Blk, id string) *Blk {
	h := parent.Height + 1
	// coinbase: BIP34 height + extra nonce; one P2WPKH output
	cbScript, err := txscript.NewScriptBuilder().AddInt64(int64(h)).AddInt64(w.rng.Int63()).Script()
	if err != nil {
		panic(err)
	}
	cb := wire.NewMsgTx(2)
	cb.AddTxIn(&wire.TxIn{
		PreviousOutPoint: *wire.NewOutPoint(&chainhash.Hash{}, wire.MaxPrevOutIndex),
		SignatureScript:  cbScript, Sequence: wire.MaxTxInSequenceNum,
	})
	pub, script := w.randKeyScript()
	cb.AddTxOut(wire.NewTxOut(50_0000_0000, script))
	txs := []*wire.MsgTx{cb}
	var prevScripts [][]byte
	var outs []spendable
	cbPub := pub

	// a few transactions spending outputs of ancestors (witness spends whose
	// witness reveals the key, as the client's filter verification expects)
	avail := []spendable{}
	for a, n := parent, 0; a != nil && n < 6; a, n = a.Parent, n+1 {
		avail = append(avail, a.outs...)
	}
	spent := map[wire.OutPoint]bool{}
	for c := parent; c != nil; c = c.Parent {
		if c.Msg == nil {
			continue
		}
		for _, tx := range c.Msg.Transactions[1:] {
			for _, in := range tx.TxIn {
				spent[in.PreviousOutPoint] = true
			}
		}
		if parent.Height-c.Height > 8 {
			break
		}
	}
	ntx := 1 + w.rng.Intn(3)
	for i := 0; i < ntx && len(avail) > 0; i++ {
		k := w.rng.Intn(len(avail))
		sp := avail[k]
		avail = append(avail[:k], avail[k+1:]...)
		if spent[sp.op] {
			continue
		}
		spent[sp.op] = true
		tx := wire.NewMsgTx(2)
		sig := make([]byte, 71)
		w.rng.Read(sig)
		sig[0] = 0x30
		tx.AddTxIn(&wire.TxIn{PreviousOutPoint: sp.op, Sequence: wire.MaxTxInSequenceNum,
			Witness: wire.TxWitness{sig, sp.pub}})
		nout := 1 + w.rng.Intn(2)
		for j := 0; j < nout; j++ {
			p2, s2 := w.randKeyScript()
			v := sp.value/int64(nout) - 1000
			tx.AddTxOut(wire.NewTxOut(v, s2))
			outs = append(outs, spendable{script: s2, pub: p2, value: v,
				op: wire.OutPoint{Index: uint32(j)}}) // hash filled below
		}
		if w.rng.Intn(4) == 0 {
			data := make([]byte, 8)
			w.rng.Read(data)
			nd, _ := txscript.NullDataScript(data)
			tx.AddTxOut(wire.NewTxOut(0, nd))
		}
		th := tx.TxHash()
		for j := len(outs) - nout; j < len(outs); j++ {
			outs[j].op.Hash = th
		}
		txs = append(txs, tx)
		prevScripts = append(prevScripts, sp.script)
	}

	// witness commitment (BIP141) when any transaction carries a witness
	if len(txs) > 1 {
		var nonce [32]byte
		cb.TxIn[0].Witness = wire.TxWitness{nonce[:]}
		ut := make([]*btcutil.Tx, len(txs))
		for i, t := range txs {
			ut[i] = btcutil.NewTx(t)
		}
		wroot := blockchain.CalcMerkleRoot(ut, true)
		var pre [64]byte
		copy(pre[:32], wroot[:])
		copy(pre[32:], nonce[:])
		commit := chainhash.DoubleHashB(pre[:])
		cs := append(append([]byte{}, blockchain.WitnessMagicBytes...), commit...)
		cb.AddTxOut(wire.NewTxOut(0, cs))
	}
	cbh := cb.TxHash()
	outs = append(outs, spendable{op: wire.OutPoint{Hash: cbh, Index: 0}, script: script, pub: cbPub, value: 50_0000_0000})

	ut := make([]*btcutil.Tx, len(txs))
	for i, t := range txs {
		ut[i] = btcutil.NewTx(t)
	}
	hdr := wire.BlockHeader{
		Version:    0x20000000,
		PrevBlock:  parent.Hash,
		MerkleRoot: blockchain.CalcMerkleRoot(ut, false),
		Timestamp:  w.nextTime(parent),
		Bits:       w.Params.PowLimitBits,
	}
	w.solve(&hdr, true)
	msg := &wire.MsgBlock{Header: hdr, Transactions: txs}
	b := &Blk{ID: id, Height: h, Parent: parent, Msg: msg, Hash: hdr.BlockHash(), Valid: true, outs: outs}
	f, err := builder.BuildBasicFilter(msg, prevScripts)
	if err != nil {
		panic(err)
	}
	b.setFilter(f, parent.FHeader)
	w.mu.Lock()
	w.index(b)
	w.mu.Unlock()
	return b
}

// nextTime: strictly increasing whole seconds; the first block after the 2011
// genesis jumps to one hour before now so that the client regards the chain as
// current and growth never reaches the two-hours-ahead limit.
func (w *World) nextTime(parent *Blk) time.Time {
	if w.nextTS != nil {
		t := time.Unix(w.nextTS.Unix(), 0)
		w.nextTS = nil
		return t
	}
	if parent.Height == 0 {
		if !w.FirstBlockTime.IsZero() {
			return time.Unix(w.FirstBlockTime.Unix(), 0)
		}
		return time.Unix(time.Now().Unix()-3600, 0)
	}
	return parent.Msg.Header.Timestamp.Add(time.Second)
}

// solve sets the nonce so that the header does (valid) or does not (!valid)
// meet its target.
func (w *World) solve(h *wire.BlockHeader, valid bool) {
	for n := uint32(0); ; n++ {
		h.Nonce = n
		hash := h.BlockHash()
		if (blockchain.HashToBig(&hash).Cmp(w.target) <= 0) == valid {
			return
		}
	}
}

// Extend mines n valid blocks on top of tip; ids are <letter><height>.
func (w *World) Extend(tip *Blk, n int, letter string) *Blk {
	for i := 0; i < n; i++ {
		tip = w.mineOn(tip, fmt.Sprintf("%s%d", letter, tip.Height+1))
	}
	return tip
}

// ExtendAt mines one valid block on tip with the given timestamp (it must lie
// after the median time of the last 11 blocks; it may lie in the future).
func (w *World) ExtendAt(tip *Blk, letter string, ts time.Time) *Blk {
	w.nextTS = &ts
	return w.Extend(tip, 1, letter)
}

// SetHonest moves the honest tip (after Extend).
func (w *World) SetHonest(b *Blk) {
	w.mu.Lock()
	w.honest = b
	w.mu.Unlock()
}

// FakeHeader fabricates a header on top of parent that is NOT a valid block:
// kind "pow" misses its target, kind "unlinked" names an unknown parent.
func (w *World) FakeHeader(parent *Blk, kind string) *Blk {
	hdr := wire.BlockHeader{
		Version:   0x20000000,
		PrevBlock: parent.Hash,
		Timestamp: w.nextTime(parent),
		Bits:      w.Params.PowLimitBits,
	}
	w.rng.Read(hdr.MerkleRoot[:])
	switch kind {
	case "pow":
		w.solve(&hdr, false)
	case "unlinked":
		w.rng.Read(hdr.PrevBlock[:])
		w.solve(&hdr, true)
	default:
		panic(kind)
	}
	msg := &wire.MsgBlock{Header: hdr}
	b := &Blk{ID: "x", Height: parent.Height + 1, Parent: parent, Msg: msg, Hash: hdr.BlockHash()}
	w.mu.Lock()
	w.index(b)
	w.mu.Unlock()
	return b
}

// BlockID interns a block hash reported by the client against ground truth.
func (w *World) BlockID(h chainhash.Hash) string {
	w.mu.RLock()
	defer w.mu.RUnlock()
	if b := w.byHash[h]; b != nil && b.Valid {
		return b.ID
	}
	return "x"
}

// FilterID interns a filter header reported by the client: f<block id> when it
// is the true filter header of a ground-truth block.
func (w *World) FilterID(h chainhash.Hash) string {
	w.mu.RLock()
	defer w.mu.RUnlock()
	if b := w.byFHdr[h]; b != nil {
		return "f" + b.ID
	}
	return "x"
}

func le32(v uint32) []byte {
	var b [4]byte
	binary.LittleEndian.PutUint32(b[:], v)
	return b[:]
}
