#!/usr/bin/env python3
"""Regenerates MANIFEST.json from bin/props.py + the table below."""
import json, os, sys, subprocess
sys.path.insert(0, os.path.dirname(os.path.abspath(__file__)))
from props import PROPS
from manifest_text import TEXT, NOT_YET

VERIF = os.path.dirname(os.path.dirname(os.path.abspath(__file__)))
hooks = subprocess.run(["git", "-C", "/repo", "log", "--format=%H %s", "--grep=^verif hooks"], capture_output=True, text=True).stdout.strip().splitlines()
m = {
    "version": 1,
    "setup_cmd": "cd /verif && bin/setup",
    "hooks": {
        "guard": "verif",
        "enable": "go build -tags verif (the harness module /verif/harness replaces github.com/lightninglabs/neutrino => /repo and builds it with -tags verif)",
        "baseline_off_cmd": "for m in . ./cache; do (cd /repo/$m && GOFLAGS=-mod=mod go test -json -vet=off -count=1 -timeout 25m ./...); done",
        "source_commits": [h.split()[0] for h in hooks],
        "add_only": True,
    },
    "engines": [
        {"name": "lean-models", "path": "lean/", "serves_properties": sorted(PROPS), "kind_free_text": "Lean 4 executable models + kernel-checked theorems (lake build), axiom audit"},
        {"name": "extract", "path": "extract/", "serves_properties": sorted(PROPS), "kind_free_text": "go/ast + go/types source-fact extractor and Go-to-Lean translator (extract/trans*.go: pure/decision functions of the repo become total Lean defs in Gen/Trans*.lean, proved equal to the hand models by the Cxx_trans_* theorems) regenerating lean/Neutrino/Gen/*.lean from /repo on every run"},
        {"name": "corr", "path": "harness/", "serves_properties": sorted(PROPS), "kind_free_text": "Go correspondence harness driving the real code in-process; traces replayed by the compiled Lean driver (model diff + property oracle)"},
    ],
    "checks": [],
    "not_applicable": [],
    "notes": "Technique family: machine-checked proof in Lean 4 about executable models, tied to /repo on every run in three ways: (1) pure/decision functions are TRANSLATED from the Go source into Lean definitions and proved equal to the hand-written model functions (Gen/Trans*.lean, theorems Cxx_trans_*), (2) regenerated source facts (constants, step orders, tables, lock regions, blocking sites) pinned by theorems, (3) a differential correspondence check of the executable models against the real code in-process plus an observation-level property oracle. A broken proof obligation or correspondence triggers a search for a failing input; none found => VIOLATION ... no-failing-input-found. See DESIGN.md (section 0 as built, 4 trusted base, 8 findings, 13/14 seeded regressions and harmless refactors).",
}
for pid in sorted(PROPS):
    t = TEXT[pid]
    m["checks"].append({
        "property_id": pid,
        "quick_cmd": "bin/check %s --tier quick" % pid,
        "thorough_cmd": "bin/check %s --tier thorough" % pid,
        "evidence_file": "/verif/evidence/%s.json" % pid,
        "replay_cmd_template": "bin/check %s --replay {path}" % pid,
        "engine": "lean-models",
        "level_claimed": {"category": "proof", "text": t["level"], "design_ref": t["ref"]},
        "level_note": t["note"],
        "technique": t["technique"],
    })
for pid, why in sorted(NOT_YET.items()):
    if pid not in PROPS:
        m["not_applicable"].append({"property_id": pid, "reason": why})
json.dump(m, open(os.path.join(VERIF, "MANIFEST.json"), "w"), indent=1)
print("MANIFEST.json: %d checks, %d not claimed" % (len(m["checks"]), len(m["not_applicable"])))
