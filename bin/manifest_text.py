from props import PROPS
TEXT = {p: dict(level=c["level"] + "".join(" " + c[k] for k in ("sync_peer", "ask_model", "time_and_queue") if c.get(k)), ref=c["ref"], note=c["note"], technique=c["technique"]) for p, c in PROPS.items()}
# Properties not claimed by a check, with the reason (kept current as checks are added).
NOT_YET = {p: "check not built yet in this session; see DESIGN.md section 11 for the order of work" for p in
           ["C%02d" % i for i in range(1, 20)]}
