PROP = dict(
    lean=["Neutrino.Props.C08"],
    audit="Neutrino.Audit.C08",
    drivers=[("crash", "store")],
    race=False,
    trusted=["bbolt: each walletdb.Update is atomic and durable on return", "a crashed write leaves any byte prefix of the data at the end of the file; ftruncate is atomic",
             "double-SHA256 is injective (hashes are interned ids)"],
    assumptions=["callers' contract as for C07", "a start that is itself killed is modelled step by step (openStoreR/reopenR: index transaction, trim, reset of an interrupted first initialisation, genesis write at every torn length, its index transaction, reconciling truncate) and proved recoverable any number of times in a row (C08_restart_killed, C08_first_init); I/O errors (as opposed to crashes) during start-up make the constructors fail and are not constrained",
                 "the header-import and reorganisation arms are sequences of the store operations modelled here (write blocks; roll back filter store then block store per height; write filter headers): their crash points are the union of the modelled ones"],
    level="Kernel-checked theorem C08_recover: for EVERY durable state representing any log, every store operation (append, rollbacks, the block manager's multi-store rollback) under the callers' contract, and every crash point (before any durable step, or inside a file append after any number of bytes), the restart succeeds and the reopened stores represent exactly the log before or after the interrupted operation (for the multi-step rollback: a log it passes through), with the filter headers not ahead of the block headers (C08_recovered_consistent) and further operations behaving as on a fresh store (C08_resume). The proof goes through reopen_ahead: start-up reconciliation maps every state whose files are ahead of the index back to the indexed log. Tied to /repo by the regenerated step-order facts (C08_source_shape: index-before-file on rollback, file-before-index on append, trim at open, filter store rolled back first) and by crashing the real stores at every durable step (panic injected in File.Write/Truncate and DB.Update, torn lengths of every class) and reopening them.",
    ref="DESIGN.md section 7 C08",
    note="Trusted: Lean kernel + propext/Classical.choice/Quot.sound; extractor; harness; bbolt atomicity; the crash model of a file append (any prefix survives).",
    technique="Lean 4 proof (crash-state invariant 'files ahead of index' + recovery theorem, induction over the rollback loop) with regenerated step-order facts and crash-injection correspondence",
)
