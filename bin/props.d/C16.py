PROP = dict(
    lean=["Neutrino.Props.C16"],
    audit="Neutrino.Audit.C16",
    drivers=[("lru", "lru")],
    race=True,
    trusted=["Go sync.Mutex / sync.Map are atomic per operation", "cache/lru/list.go (container/list copy) behaves as a sequence"],
    assumptions=["values' Size() is deterministic unless poisoned by the harness",
                 "the uint64 counter is modelled in Nat; absence of wrap-around is part of the proved invariant"],
    level="Kernel-checked theorems about an executable Lean model of cache/lru (index + recency list + byte counter): the coherence invariant holds in every reachable state for every operation sequence and capacity (C16_state_invariant), the model refines a plain recency-ordered association list (C16_refines_spec, C16_lru_order, C16_get_after_put/_del), and for every interleaving of any number of threads the mutex serialises calls (C16_linearizable via LockObj.lock_serializes). The model is tied to /repo on every run by regenerated source facts (all shared accesses inside the critical section: C16_source_shape is re-proved against Gen/Lru.lean) and by a differential run of the real cache against model and spec on random sequential histories, exhaustively enumerated 2-3 thread schedules through the verif yield hooks, random longer schedules and free-running goroutines (the whole synchronised API incl. Range/Len/Size, in a child process so that a fatal runtime error is an observation). The driver also evaluates step clauses on the implementation's own observations around every sequential operation (obsClause); C16_oracle_sound proves that no step of the abstract cache from a reachable state violates them.",
    ref="DESIGN.md section 7 C16",
    note="Trusted: Lean kernel + propext/Classical.choice/Quot.sound; extractor (syntactic lock-region facts); harness agreement on generated histories; sync.Mutex/sync.Map atomicity; the interleaving theorem treats the critical section as an arbitrary sequence of micro-steps under the lock, it does not model the Go memory model.",
    technique="Lean 4 proof (invariant induction + refinement + lock-serialisation theorem) with regenerated source facts and differential correspondence",
)
