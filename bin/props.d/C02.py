PROP = dict(
    lean=["Neutrino.Props.C02"],
    audit="Neutrino.Audit.C02",
    drivers=[("bm", "blockmgr")],
    trusted=["btcd blockchain.CheckBlockHeaderContext / CheckBlockHeaderSanity / CalcWork (the validity and work table is computed by the harness with btcd over a chain context of its own)"],
    assumptions=["a header's validity depends only on the header and its own ancestors (it is a function of the header id in the table)"],
    level="TODO",
    ref="DESIGN.md section 7 C02",
    note="TODO",
    technique="Lean 4 proof (invariant induction over the block-manager machine) with regenerated source facts and differential correspondence",
)
