PROP = dict(
    lean=["Neutrino.Props.C06"],
    audit="Neutrino.Audit.C06",
    drivers=[("block", "getblock")],
    trusted=["btcd blockchain.CheckBlockSanity / ValidateWitnessCommitment / CalcMerkleRoot compute the three predicates (the harness evaluates them on private copies of every response and of the returned block)",
             "cache/lru refines the recency list Lru.Spec (that is property C16)"],
    assumptions=["peer addresses handed to the handler parse as IP[:port] (query.Worker passes peer.Addr()); an unparsable address is logged and not banned",
                 "CheckBlockSanity accepting a block implies its transactions reproduce the header's merkle root (checked on every generated response)",
                 "the dispatcher calls the handler of one request sequentially (query.Worker does); it may deliver any responses from any peers, stop or not after Finished, and end with any verdict"],
    level="Kernel-checked theorems about an executable Lean model of GetBlock and its response handler over an adversarial dispatcher: for every response stream from any peers in any order, every dispatcher verdict and every history of earlier calls on a cache of any capacity, a returned block (fresh or cached) was sent for this hash, has the requested header hash and passes the sanity and witness-commitment checks (C06_sound); a peer is banned iff it sent a block with the requested header failing one of the checks (C06_ban_iff, C06_ban_only_by_handler); other responses are ignored and can be deleted from the stream (C06_ignore_others); without a good response or without a success verdict the call fails and the cache is untouched (C06_fail_closed, C06_cache_after_success). The model is tied to /repo on every run by regenerated source facts (order of the four tests, BanPeer on both failure branches, cache write after the nil test: C06_source_facts) and by a differential run of the real ChainService.GetBlock (real header store, LRU block cache, bbolt ban store) under a scripted WorkManager feeding honest, mutated, foreign, non-block and duplicate responses; the property oracle is evaluated on the implementation's own observations with predicates computed independently by btcd.",
    ref="DESIGN.md section 7 C06",
    note="Trusted: Lean kernel + propext/Classical.choice/Quot.sound; extractor (syntactic facts about the handler closure); harness agreement on generated histories; btcd's validation functions as the definition of the three predicates.",
    technique="Lean 4 proof (decision function + provenance invariant over call histories) with regenerated source facts and differential correspondence",
)
