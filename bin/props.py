# Per-property configuration for bin/check.
PROPS = {
    "C16": dict(
        lean=["Neutrino.Props.C16"],
        audit="Neutrino.Audit.C16",
        drivers=[("lru", "lru")],
        race=True,
        trusted=["Go sync.Mutex / sync.Map are atomic per operation", "cache/lru/list.go (container/list copy) behaves as a sequence"],
        assumptions=["values' Size() is deterministic unless poisoned by the harness",
                     "the uint64 counter is modelled in Nat; absence of wrap-around is part of the proved invariant"],
    ),
}
