# Per-property configuration: one file per property in bin/props.d/Cxx.py defining PROP.
import os, glob, importlib.util
PROPS = {}
for f in sorted(glob.glob(os.path.join(os.path.dirname(os.path.abspath(__file__)), "props.d", "C*.py"))):
    spec = importlib.util.spec_from_file_location("p_" + os.path.basename(f)[:-3], f)
    m = importlib.util.module_from_spec(spec)
    spec.loader.exec_module(m)
    PROPS[os.path.basename(f)[:-3]] = m.PROP
